#!/usr/bin/env python3
"""usage: addfn.py <prop-id> <package-path> <func> [<func> ...]
Adds functions (package-qualified with <package-path>) to props/<prop-id>.json 'functions' and the
package to 'packages'."""
import json, sys
pid, pkg, fns = sys.argv[1], sys.argv[2], sys.argv[3:]
path = '/verif/props/%s.json' % pid
p = json.load(open(path))
if pkg not in p['packages']:
    p['packages'].append(pkg)
for f in fns:
    n = pkg + '.' + f
    if n not in p['functions']:
        p['functions'].append(n)
json.dump(p, open(path, 'w'), indent=1)
print(len(p['functions']), 'functions')
