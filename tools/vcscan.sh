#!/bin/bash
# usage: vcscan.sh <prop> <name-substring> [timeout-seconds]  -- run z3-new and cvc5 on the matching VC files, print verdicts
p=$1; pat=$2; t=${3:-5}
for f in /verif/out/vc/$p/*$pat*.smt2; do
  a=$(timeout $t z3-new -T:$t "$f" 2>&1 | grep -v '^(' | grep -m1 -E '^(sat|unsat|unknown|timeout)' ); [ -z "$a" ] && a=timeout
  b=$(timeout $t cvc5 --tlimit=$((t*1000)) "$f" 2>&1 | grep -m1 -E '^(sat|unsat|unknown)' ); [ -z "$b" ] && b=timeout
  echo "$(basename $f | tail -c 60)  z3-new=$a cvc5=$b"
done
