#!/bin/bash
# usage: commit_all.sh "<message>"  -- commits contract files in /repo (hook commit "verif: ...") if
# they changed, regenerates MANIFEST.json, and commits /verif.
set -u
msg="$1"
cd /repo
if [ -n "$(git status --porcelain -- '*verif_contracts.go')" ]; then
  git add -- $(git status --porcelain -- '*verif_contracts.go' | awk '{print $2}')
  git commit -q -m "verif: $msg" && echo "repo: $(git log --oneline | head -1)"
fi
other=$(git status --porcelain | grep -v verif_contracts.go | head -3)
[ -n "$other" ] && echo "WARNING: other uncommitted changes in /repo: $other"
cd /verif
python3 tools/mkmanifest.py >/dev/null
python3-vt - <<'E'
import json, jsonschema
jsonschema.validate(json.load(open('/verif/MANIFEST.json')), json.load(open('/root/.vp/MANIFEST.schema.json')))
print("manifest valid")
E
git add -A
git commit -q -m "$msg" && echo "verif: $(git log --oneline | head -1)"
