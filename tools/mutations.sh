#!/bin/bash
# Must-fail corpus of one-line mutations (sed on /repo, reverted straight away by mut.sh): every line
# must print at least one VIOLATION. These complement seeded/ (independent multi-line changes): they
# are the quick smoke test after an engine change. usage: tools/mutations.sh [property]
cd /verif
want=${1:-}
run() { # prop file sed
  [ -n "$want" ] && [ "$want" != "$1" ] && return
  out=$(./mut.sh "$1" "$2" "$3" 2>&1)
  n=$(echo "$out" | grep -c '^VIOLATION')
  echo "$1 $2 :: $3 -> $n violation(s) $(echo "$out" | grep '^VIOLATION' | head -1 | sed 's/.*replay=[^ ]*\///' | cut -c1-90)"
}
# C11: operator table, folds, wrappers
run C11 pkg/expressions/stdlib/funcs.go 's/func(a, b int) int { return a - b }/func(a, b int) int { return b - a }/'
run C11 pkg/expressions/stdlib/funcsStrings.go 's/(val-min)\*100.0\/(max-min)/(val-min)*100.0\/max/'
run C11 pkg/expressions/stdlib/funcs.go 's/return a >= b/return a > b/'
run C11 pkg/expressions/stdlib/funcsArithmatic.go "s/FormatFloat(val, 'f', precision, 64)/FormatFloat(val, 'f', precision+1, 64)/"
run C11 pkg/expressions/stdlib/funcsComparators.go 's/for i := 1; i < len(args); i++ {/for i := 1; i < 2; i++ {/'
run C11 pkg/humanize/units.go 's/unitize(n, 1000, precision, "", unitSize\[:\])/unitize(n, 1024, precision, "", unitSize[:])/'
# C17: list semantics
run C17 pkg/expressions/stdlib/funcsRange.go 's/(incr > 0 \&\& i < stop)/(incr > 0 \&\& i <= stop)/'
run C17 pkg/expressions/stdlib/funcsRange.go 's/memo = mapperContext.Eval(args\[1\], memo, splitter.Next())/memo = mapperContext.Eval(args[1], splitter.Next(), memo)/'
run C17 pkg/expressions/stdlib/funcsRange.go 's/sIdx := strconv.Itoa(idx)/sIdx := strconv.Itoa(idx + 1)/'
run C17 pkg/expressions/stdlib/funcsRange.go 's/if idx > 0 {/if sb.Len() > 0 {/'
# C07: variance
run C07 pkg/aggregation/numerical.go 's/s.variance += (val - oldMean) \* (val - s.mean)/s.variance += (val - oldMean) * (val - oldMean)/'
run C07 pkg/aggregation/numerical.go 's/return s.variance \/ float64(s.samples-1)/return s.variance \/ float64(s.samples)/'
# C02: colouriser drops the last byte
run C02 pkg/color/coloring.go 's/if lastIndex < len(s) {/if lastIndex+1 < len(s) {/'
# C14: sparkline skips the first column; heatmap scales against 0 instead of the minimum
run C14 pkg/multiterm/termrenderers/spark.go 's/for j := 0; j < len(colNames); j++ {/for j := 1; j < len(colNames); j++ {/'
run C14 pkg/multiterm/termrenderers/heatmap.go 's/s.Scaler.Scale(val, s.minVal, s.maxVal))/s.Scaler.Scale(val, 0, s.maxVal))/'
