#!/usr/bin/env python3
# regenerates the two generated tables of DESIGN.md (between the HTML comment markers) from
# evidence/*.json and seeded/RESULTS.txt
import subprocess, re, os
here = os.path.dirname(os.path.abspath(__file__))
d = os.path.join(here, '..', 'DESIGN.md')
t = open(d).read()
for marker, tool in (('EVIDENCE_TABLE', 'evidence_table.py'), ('SEEDED_TABLE', 'seeded_table.py')):
    out = subprocess.run(['python3', os.path.join(here, tool)], capture_output=True, text=True).stdout.strip()
    t = re.sub(r'<!-- %s -->.*?<!-- /%s -->' % (marker, marker), lambda m: '<!-- %s -->\n%s\n<!-- /%s -->' % (marker, out, marker), t, flags=re.S)
open(d, 'w').write(t)
