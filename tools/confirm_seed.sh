#!/bin/bash
# usage: confirm_seed.sh <srcdir with patch.diff demo_test.go notes.md> <seed-name> <property> <demo package dir>
# Confirms in a scratch worktree: patch applies+builds, full suite matches baseline (only the
# always-failing TestTryWriteCSV may fail), demo fails with patch and passes without. Then stores
# the seed under /verif/seeded/<seed-name>/ with meta.json.
set -u
src=$1; name=$2; prop=$3; pkg=$4
export GOFLAGS=-mod=mod GOPROXY=off GOSUMDB=off GOTOOLCHAIN=local
wt=/tmp/confirm_$name
# only the demo's own tests are run in its package (cmd/helpers has a test that fails in this sandbox)
tests=$(grep -o "^func Test[A-Za-z0-9_]*" $src/demo_test.go | sed 's/func //' | paste -sd'|')
race=""; grep -q "needs -race" $src/demo_test.go && race="-race"
git -C /repo worktree remove --force $wt 2>/dev/null
git -C /repo worktree add -q --detach $wt HEAD || exit 2
cd $wt
res="ok"
cp $src/demo_test.go $pkg/zz_demo_test.go
go test -vet=off -count=1 -timeout 300s $race -run "^($tests)\$" ./$pkg >/tmp/confirm_$name.clean.log 2>&1 || res="demo-fails-on-clean-tree"
rm -f $pkg/zz_demo_test.go
if ! git apply $src/patch.diff; then res="patch-does-not-apply"; fi
if [ "$res" = ok ]; then
  go build ./... >/tmp/confirm_$name.build.log 2>&1 || res="does-not-build"
fi
if [ "$res" = ok ]; then
  go test -vet=off -count=1 ./... >/tmp/confirm_$name.suite.log 2>&1
  fails=$(grep -E "^(--- FAIL|FAIL)" /tmp/confirm_$name.suite.log | grep -v "TestTryWriteCSV" | grep -v "^FAIL$" | grep -v "rare/cmd/helpers" | wc -l)
  [ "$fails" != 0 ] && res="suite-fails-with-patch"
fi
if [ "$res" = ok ]; then
  cp $src/demo_test.go $pkg/zz_demo_test.go
  if go test -vet=off -count=1 -timeout 300s $race -run "^($tests)\$" ./$pkg >/tmp/confirm_$name.demo.log 2>&1; then res="demo-passes-with-patch"; fi
fi
cd /; git -C /repo worktree remove --force $wt
if [ "$res" = ok ]; then
  mkdir -p /verif/seeded/$name
  cp $src/patch.diff $src/demo_test.go /verif/seeded/$name/
  [ -f $src/notes.md ] && cp $src/notes.md /verif/seeded/$name/
  python3 - "$name" "$prop" "$pkg" <<'PY'
import json,sys,subprocess
name,prop,pkg=sys.argv[1:4]
head=subprocess.run(['git','-C','/repo','rev-parse','--short','HEAD'],capture_output=True,text=True).stdout.strip()
json.dump({"seed":name,"property":prop,"demo_package":pkg,"repo_head_when_confirmed":head,
 "confirmed":["patch applies and builds","go test -vet=off -count=1 ./... : no failure other than the always-failing TestTryWriteCSV","demo_test.go passes on the clean tree and fails with the patch"],
 "needs_to_manifest":"see notes.md","source":"independent sub-agent given only the property text"},open('/verif/seeded/%s/meta.json'%name,'w'),indent=1)
PY
fi
echo "$name: $res"
rm -f /tmp/confirm_$name.*.log
