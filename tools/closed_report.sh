#!/bin/bash
# development aid: for each property, list the anonymous functions of functions under contract
# that are not themselves under contract (candidates for "closed" in props/<id>.json)
cd "$(dirname "$0")/.."
for p in ${@:-C01 C02 C04 C05 C06 C07 C08 C10 C11 C12 C13 C14 C16 C17 C18 C19 C20}; do
  echo "== $p"
  VERIF_CLOSED_REPORT=1 VERIF_ONLY=zz-none ./check $p quick 2>&1 | grep '^closed-report' | sort -u
  git checkout -q -- evidence/$p.json 2>/dev/null
done
