#!/usr/bin/env python3
# prints the per-property table of DESIGN.md §I.4 from evidence/*.json (written by the checks)
import json, glob, os
print("| id | functions under contract | functions verified | obligations = discharged | solver time | bounded stand-ins | known findings | wall |")
print("|----|---|---|---|---|---|---|---|")
for f in sorted(glob.glob(os.path.join(os.path.dirname(__file__), '..', 'evidence', 'C*.json'))):
    e = json.load(open(f)); c = e['coverage']
    fv = c.get('functions_verified') or []
    kf = c.get('known_findings_active') or []
    ob, di = c.get('obligations'), c.get('discharged')
    print(f"| {e['property_id']} | {c.get('functions_under_contract')} | {len(fv)} | {ob}{'' if ob == di else ' / ' + str(di)} | {round((c.get('solver_ms_total') or 0)/1000)} s | {len(c.get('bounded_standins') or [])} | {len(kf)} | {round(e.get('wall_s') or 0)} s |")
