#!/bin/bash
# usage: tools/run_seeded.sh [seed-name ...]
# Applies each seeded change of /verif/seeded/<name>/patch.diff to a scratch worktree of /repo HEAD
# (never to /repo itself), runs the quick check of its property against that worktree
# (VERIF_REPO), and prints one line per seed: caught (exit 1 + VIOLATION), missed (exit 0),
# no-check (property not claimed), stale (patch no longer applies) or broken (other exit).
# The evidence file of the property is restored from git after each run: evidence must only ever describe /repo itself.
set -u
cd "$(dirname "$0")/.." || exit 3   # the copy of /verif this script belongs to (a snapshot runs in its own directory)
export GOFLAGS=-mod=mod GOPROXY=off GOSUMDB=off GOTOOLCHAIN=local
seeds=("$@")
if [ ${#seeds[@]} = 0 ]; then seeds=($(ls seeded | grep -v '\.md$')); fi
wt=/tmp/seedwt_$$
base=${SEED_BASE:-$(git -C /repo rev-parse HEAD)}   # one repository commit for the whole run (commits made meanwhile do not mix in)
mkdir -p out/seeded
for name in "${seeds[@]}"; do
  d=seeded/$name
  [ -f $d/patch.diff ] || continue
  prop=$(python3 -c "import json;print(json.load(open('$d/meta.json'))['property'])")
  if ! python3 -c "import json,sys;m=json.load(open('MANIFEST.json'));sys.exit(0 if any(c['property_id']=='$prop' for c in m['checks']) else 1)"; then
    echo "$name $prop no-check"; continue
  fi
  git -C /repo worktree remove --force $wt 2>/dev/null
  git -C /repo worktree add -q --detach $wt $base || { echo "$name worktree-failed"; continue; }
  if ! git -C $wt apply $PWD/$d/patch.diff 2>/dev/null; then
    if ! git -C $wt apply -3 $PWD/$d/patch.diff 2>/dev/null; then
      echo "$name $prop stale"; git -C /repo worktree remove --force $wt; continue
    fi
  fi
  s=$(date +%s)
  VERIF_REPO=$wt ./check $prop quick > out/seeded/$name.log 2>&1; rc=$?
  git checkout -q -- evidence/$prop.json 2>/dev/null   # evidence must describe /repo itself, not the mutated copy
  e=$(date +%s)
  nv=$(grep -c '^VIOLATION' out/seeded/$name.log)
  nb=$(grep '^VIOLATION' out/seeded/$name.log | grep -c '/bounded_')
  first=$(grep '^VIOLATION' out/seeded/$name.log | grep -v '/bounded_' | head -1 | sed 's/.*replay=[^ ]*\///' | cut -c1-110)
  [ -z "$first" ] && first=$(grep '^VIOLATION' out/seeded/$name.log | head -1 | sed 's/.*replay=[^ ]*\///' | cut -c1-110)
  case $rc in
    0) st=missed;;
    1) if [ $nv -gt 0 ]; then st=caught; else st=broken-exit1-no-violation; fi;;
    *) st=broken-rc$rc;;
  esac
  echo "$name $prop $st violations=$nv bounded=$nb $((e-s))s $first"
  git -C /repo worktree remove --force $wt
done
