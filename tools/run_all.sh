#!/bin/bash
# usage: run_all.sh [tier] [props...]  -- runs the checks one after the other on /repo, one summary line each
cd /verif
tier=${1:-quick}; shift
props="$@"
[ -z "$props" ] && props=$(python3 -c "import json;print(' '.join(c['property_id'] for c in json.load(open('/verif/MANIFEST.json'))['checks']))")
for p in $props; do
  ./check $p $tier > /tmp/all_$p.log 2>&1; rc=$?
  echo "$p rc=$rc $(grep -c '^VIOLATION' /tmp/all_$p.log)viol $(grep -c '^KNOWN-FINDING' /tmp/all_$p.log)kf $(grep '^BROKEN' /tmp/all_$p.log | cut -c1-160) $(grep '^property=' /tmp/all_$p.log | cut -d' ' -f3-)"
done
echo all-done
