#!/bin/bash
# usage: run_all.sh [tier] [props...]  -- runs the checks one after the other, one summary line each
# (in the copy of /verif this script belongs to; against $VERIF_REPO or /repo)
cd "$(dirname "$0")/.." || exit 3
tier=${1:-quick}; shift
props="$@"
[ -z "$props" ] && props=$(python3 -c "import json;print(' '.join(c['property_id'] for c in json.load(open('MANIFEST.json'))['checks']))")
mkdir -p out
for p in $props; do
  ./check $p $tier > out/all_$p.log 2>&1; rc=$?
  echo "$p rc=$rc $(grep -c '^VIOLATION' out/all_$p.log)viol $(grep -c '^KNOWN-FINDING' out/all_$p.log)kf $(grep '^BROKEN' out/all_$p.log | cut -c1-160) $(grep '^property=' out/all_$p.log | cut -d' ' -f3-)"
done
echo all-done
