#!/usr/bin/env python3
"""usage: showreplay.py <replay.json> [maxchars]  -- print the fields of a replay file, truncated"""
import json, sys
d = json.load(open(sys.argv[1]))
n = int(sys.argv[2]) if len(sys.argv) > 2 else 1200
for k, v in d.items():
    print(k, ':', str(v)[:n])
