#!/usr/bin/env python3
"""usage: setmeta.py <prop-id> text|note append|set <file-with-text>
Edits props/meta.json (the level_claimed.text / level_note source of MANIFEST.json)."""
import json, sys
pid, field, mode, path = sys.argv[1:5]
m = json.load(open('/verif/props/meta.json'))
t = open(path).read().strip()
if mode == 'append':
    m[pid][field] = m[pid][field].rstrip() + ' ' + t
else:
    m[pid][field] = t
json.dump(m, open('/verif/props/meta.json', 'w'), indent=1)
print(pid, field, len(m[pid][field]), 'chars')
