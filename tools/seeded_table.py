#!/usr/bin/env python3
"""Turn the output of tools/run_seeded.sh (seeded/RESULTS.txt) into the markdown table of DESIGN.md §I.6."""
import re, sys, collections
rows = []
for l in open('/verif/seeded/RESULTS.txt'):
    f = l.split()
    if len(f) < 3: continue
    name, prop, st = f[0], f[1], f[2]
    nv = nb = 0
    m = re.search(r'violations=(\d+)', l); nv = int(m.group(1)) if m else 0
    m = re.search(r'bounded=(\d+)', l); nb = int(m.group(1)) if m else 0
    how = st
    if st == 'caught':
        how = 'bounded' if nv == nb else ('proof + bounded' if nb > 0 else 'proof')
    first = ' '.join(f[6:])[:90] if len(f) > 6 else ''
    rows.append((name, prop, how, first))
by = collections.Counter(r[2] for r in rows)
print('| seed | property | caught by | first failing obligation (file name under out/replay/<id>/) |')
print('|------|----------|-----------|---|')
for r in rows:
    print('| %s | %s | %s | `%s` |' % r)
print()
print('Totals: ' + ', '.join('%s %d' % kv for kv in sorted(by.items())) + ' of %d.' % len(rows))
