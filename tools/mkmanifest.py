#!/usr/bin/env python3
"""Regenerate /verif/MANIFEST.json from props/*.json and props/meta.json (claimed properties)
and tools/not_applicable.json."""
import json, os, subprocess, glob
V = '/verif'
meta = json.load(open(f'{V}/props/meta.json'))
na = json.load(open(f'{V}/props/not_applicable.json'))
claimed = sorted(m for m in meta if os.path.exists(f'{V}/props/{m}.json'))
hooks = subprocess.run(['git', '-C', '/repo', 'log', '--format=%H %s'], capture_output=True, text=True).stdout.splitlines()
hook_commits = [l.split()[0] for l in hooks if l.split(' ', 1)[1].startswith('verif:')]
checks = []
for pid in claimed:
    m = meta[pid]
    checks.append({
        "property_id": pid,
        "quick_cmd": f"./check {pid} quick",
        "thorough_cmd": f"./check {pid} thorough",
        "evidence_file": f"/verif/evidence/{pid}.json",
        "replay_cmd_template": f"./check {pid} --replay {{path}}",
        "engine": "govc",
        "level_claimed": {"category": "proof", "text": m["text"], "design_ref": m.get("design_ref", "DESIGN.md §4 " + pid)},
        "level_note": m["note"],
        "technique": m.get("technique", "contract-based deductive verification: weakest-precondition VCs over go/ssa of the real functions, contracts in verif_contracts.go, discharged by z3/cvc5"),
    })
man = {
    "version": 1,
    "setup_cmd": "cd /verif/govc && GOFLAGS=-mod=vendor GOPROXY=off GOSUMDB=off GOTOOLCHAIN=local go build -o /verif/bin/govc .",
    "hooks": {
        "guard": "verif",
        "enable": "contracts are comment-only files verif_contracts.go (//go:build verif) next to the code; govc reads them from the working tree; `go build -tags verif` compiles them as empty files",
        "baseline_off_cmd": "cd /repo && GOFLAGS=-mod=mod GOPROXY=off GOSUMDB=off GOTOOLCHAIN=local go test -vet=off -count=1 ./...",
        "source_commits": hook_commits,
        "add_only": True,
    },
    "engines": [{"name": "govc", "path": "/verif/govc", "serves_properties": claimed,
                 "kind_free_text": "self-built deductive verifier for Go: go/ssa symbolic execution between loop cut points, contracts (requires/ensures/invariant/modifies/ghost) in verif_contracts.go next to the code, one SMT-LIB VC per obligation and path, portfolio z3 5.1.0 / cvc5 1.0 / z3 4.8.12, replay through go test -overlay"}],
    "checks": checks,
    "notes": open(f'{V}/props/notes.txt').read().strip() if os.path.exists(f'{V}/props/notes.txt') else "",
    "not_applicable": [x for x in na if x["property_id"] not in claimed],
}
json.dump(man, open(f'{V}/MANIFEST.json', 'w'), indent=1)
print("claimed:", claimed, "not_applicable:", [x["property_id"] for x in man["not_applicable"]])
