#!/bin/bash
# usage: mk_seed_wt.sh <name>   -- scratch worktree for an independent seeding sub-agent:
# /tmp/sw_<name>, detached at /repo HEAD, with the contract files removed (committed locally in the
# worktree only) so that the agent sees nothing of the verification machinery.
set -eu
wt=/tmp/sw_$1
git -C /repo worktree remove --force $wt 2>/dev/null || true
git -C /repo worktree add -q --detach $wt HEAD
cd $wt
find . -name verif_contracts.go -delete
git -c user.name=x -c user.email=x@x commit -q -am "scratch: strip contract comment files"
mkdir -p $wt/_seed
echo $wt
