#!/bin/bash
# usage: fails.sh <prop>  -- one block per replay file of the last run: obligation, description, path, verdicts
for f in /verif/out/replay/$1/*.json; do
  python3 /verif/tools/showreplay.py $f 260 | grep '^obligation\|^description\|^path_blocks\|^result\|^solver \|^source' | cut -c1-260
  echo --
done
