#!/bin/sh
# usage: mut.sh <prop> <file-in-repo> <sed-expr>   -- apply a sed mutation, run the quick check, revert
# (the evidence file of the property is restored afterwards: evidence must only ever describe the unchanged tree)
cd /repo && cp "$2" /tmp/mut.bak && sed -i "$3" "$2" && (git diff --stat | tail -1; cd /verif && ./check "$1" quick | grep -v "^  out-of" | cut -c1-220); cp /tmp/mut.bak /repo/"$2"; cd /verif && git checkout -q -- evidence/"$1".json 2>/dev/null
