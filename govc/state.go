package main

import (
	"fmt"
	"go/types"
	"sort"
	"strings"

	"golang.org/x/tools/go/ssa"
)

type heapSort struct {
	Arity int
	Sort  string // value sort
}

func (h heapSort) smt() string {
	s := h.Sort
	for i := 0; i < h.Arity; i++ {
		s = "(Array Int " + s + ")"
	}
	return s
}

// HeapView is a map of heap key -> current array term, with a base generation used for
// keys not yet touched on this path.
type HeapView struct {
	m    map[string]string
	base string            // generation tag of untouched keys ("0" = function entry)
	pre  map[string]string // havocked key prefixes -> generation tag
}

func (h *HeapView) clone() *HeapView {
	n := &HeapView{m: make(map[string]string, len(h.m)), base: h.base}
	for k, v := range h.m {
		n.m[k] = v
	}
	if len(h.pre) > 0 {
		n.pre = make(map[string]string, len(h.pre))
		for k, v := range h.pre {
			n.pre[k] = v
		}
	}
	return n
}

// havocPrefix forgets every key with the given prefix (touched or not).
func (st *State) havocPrefix(prefix string) {
	st.fx.counter++
	gen := fmt.Sprintf("hp%d", st.fx.counter)
	for k := range st.heap.m {
		if k == prefix || strings.HasPrefix(k, prefix+".") || strings.HasPrefix(k, prefix+"#") || (prefix == "ghost" && strings.HasPrefix(k, "ghost:")) {
			delete(st.heap.m, k)
		}
	}
	if st.heap.pre == nil {
		st.heap.pre = map[string]string{}
	}
	st.heap.pre[prefix] = gen
}

type deferred struct {
	call *ssa.Defer
	args []Value
	fn   Value
}

type State struct {
	constRoots map[string]bool // roots of immutable cells (see constCell)
	fx         *FuncExec
	decls      []string
	declSet    map[string]bool
	pc         []string
	pcSet      map[string]bool
	env        map[ssa.Value]Value
	heap       *HeapView
	old        *HeapView // heap at function entry
	brk        string
	defers     []deferred
	trace      []int // block indices of the top frame
	depth      int   // inline depth
	cutFrom    *ssa.BasicBlock
	remat      []string // rematerialised alloc refs (for distinctness)
	ghostV     map[string]Value
	notes      []string
	quiet      int // >0: panic obligations suppressed (rematerialisation)
	quietInv   int // >0: no type-invariant assumptions (under a binder)
	callBrk    string
	frame      []frameLoc
	hasFrame   bool
}

func (st *State) clone() *State {
	n := *st
	n.decls = append([]string(nil), st.decls...)
	n.declSet = make(map[string]bool, len(st.declSet))
	for k := range st.declSet {
		n.declSet[k] = true
	}
	n.pc = append([]string(nil), st.pc...)
	n.pcSet = make(map[string]bool, len(st.pcSet))
	for k := range st.pcSet {
		n.pcSet[k] = true
	}
	n.env = make(map[ssa.Value]Value, len(st.env))
	for k, v := range st.env {
		n.env[k] = v
	}
	n.heap = st.heap.clone()
	if st.constRoots != nil {
		n.constRoots = make(map[string]bool, len(st.constRoots))
		for k := range st.constRoots {
			n.constRoots[k] = true
		}
	}
	n.defers = append([]deferred(nil), st.defers...)
	n.trace = append([]int(nil), st.trace...)
	n.remat = append([]string(nil), st.remat...)
	n.ghostV = make(map[string]Value, len(st.ghostV))
	for k, v := range st.ghostV {
		n.ghostV[k] = v
	}
	return &n
}

func (st *State) declare(name, sort string) {
	if st.declSet[name] {
		return
	}
	st.declSet[name] = true
	st.decls = append(st.decls, fmt.Sprintf("(declare-const %s %s)", name, sort))
}

func (st *State) assume(t string) {
	if t == "true" || t == "" {
		return
	}
	if st.pcSet[t] {
		return
	}
	st.pcSet[t] = true
	st.pc = append(st.pc, t)
}

func (st *State) freshName(hint string) string {
	st.fx.counter++
	return sym(fmt.Sprintf("%s!%d", hint, st.fx.counter))
}

// ---- heap ----

func mangleKey(k string) string { return k }

func (st *State) heapSortOf(key string, arity int, sort string) heapSort {
	eng := st.fx.eng
	eng.mu.Lock()
	defer eng.mu.Unlock()
	if hs, ok := eng.heapSorts[key]; ok {
		return hs
	}
	hs := heapSort{arity, sort}
	eng.heapSorts[key] = hs
	return hs
}

func (st *State) heapTermIn(h *HeapView, key string, arity int, sort string) string {
	hs := st.heapSortOf(key, arity, sort)
	if t, ok := h.m[key]; ok {
		return t
	}
	gen := h.base
	best := -1
	for p, g := range h.pre {
		if len(p) > best && (key == p || strings.HasPrefix(key, p+".") || strings.HasPrefix(key, p+"#") || (p == "ghost" && strings.HasPrefix(key, "ghost:"))) {
			gen, best = g, len(p)
		}
	}
	if best < 0 && gen != "0" && !st.fx.modified(key) {
		gen = "0"
	}
	name := sym("H" + gen + ":" + mangleKey(key))
	st.declare(name, hs.smt())
	return name
}

func (st *State) heapSet(key string, term string) {
	eng := st.fx.eng
	eng.mu.Lock()
	hs := eng.heapSorts[key]
	eng.mu.Unlock()
	name := st.freshName("H:" + mangleKey(key))
	st.declare(name, hs.smt())
	st.assume(fmt.Sprintf("(= %s %s)", name, term))
	st.heap.m[key] = name
}

// havocAll forgets everything about the heap (unknown callee).
func (st *State) havocAll(tag string) {
	// cells of local variables whose address never leaves this function are out of any
	// callee's reach: their contents survive
	type saved struct {
		a Addr
		v Value
	}
	var keep []saved
	for _, al := range append(append([]*ssa.Alloc(nil), st.fx.localCells()...), st.fx.unescapedLocals()...) {
		ref, ok := st.env[al]
		if !ok || ref.K != VRef {
			continue
		}
		pt := al.Type().(*types.Pointer).Elem()
		func() {
			defer func() {
				if r := recover(); r != nil {
					if _, ok := r.(unsupportedErr); !ok {
						panic(r)
					}
				}
			}()
			a := Addr{Root: ref.T, Key: rootKey(pt), Ty: pt}
			st.quietInv++
			v := st.loadAt(a)
			st.quietInv--
			keep = append(keep, saved{a, v})
		}()
	}
	// ... and so does the ghost state attached to such an object (builder content, counters)
	type savedGhost struct {
		key, sort, ref, val string
	}
	var keepG []savedGhost
	for _, al := range append(append([]*ssa.Alloc(nil), st.fx.localCells()...), st.fx.unescapedLocals()...) {
		ref, ok := st.env[al]
		if !ok || ref.K != VRef {
			continue
		}
		tn := fullTypeName(al.Type().(*types.Pointer).Elem())
		for _, g := range st.fx.eng.cs.Ghosts {
			if g.Arg != tn {
				continue
			}
			sort, _ := ghostSort(g)
			h := st.heapTermIn(st.heap, "ghost:"+g.Name, 1, sort)
			keepG = append(keepG, savedGhost{"ghost:" + g.Name, sort, ref.T, "(select " + h + " " + ref.T + ")"})
		}
	}
	defer func() {
		for _, g := range keepG {
			h := st.heapTermIn(st.heap, g.key, 1, g.sort)
			st.heapSet(g.key, fmt.Sprintf("(store %s %s %s)", h, g.ref, g.val))
		}
	}()
	defer func() {
		for _, k := range keep {
			func() {
				defer func() {
					if r := recover(); r != nil {
						if _, ok := r.(unsupportedErr); !ok {
							panic(r)
						}
					}
				}()
				st.storeAt(k.a, k.v)
			}()
		}
	}()
	st.fx.counter++
	st.heap = &HeapView{m: map[string]string{}, base: fmt.Sprintf("hv%d", st.fx.counter)}
	st.fx.havocGens[st.heap.base] = true
	nb := st.freshName("brk")
	st.declare(nb, "Int")
	st.assume(fmt.Sprintf("(>= %s %s)", nb, st.brk))
	st.brk = nb
}

func selectChain(h string, idx []string) string {
	t := h
	for _, i := range idx {
		t = "(select " + t + " " + i + ")"
	}
	return t
}

func storeChain(h string, idx []string, v string) string {
	if len(idx) == 1 {
		return "(store " + h + " " + idx[0] + " " + v + ")"
	}
	inner := storeChain("(select "+h+" "+idx[0]+")", idx[1:], v)
	return "(store " + h + " " + idx[0] + " " + inner + ")"
}

func (a Addr) indices() []string {
	return append([]string{a.Root}, a.Idx...)
}

func fieldName(s *types.Struct, i int) string { return s.Field(i).Name() }

// rootKey is the heap key prefix for a pointer whose pointee type is t.
func rootKey(t types.Type) string {
	switch u := t.Underlying().(type) {
	case *types.Struct:
		_ = u
		return typeKey(t)
	case *types.Array:
		return "elem:" + typeKey(u.Elem())
	}
	return "cell:" + typeKey(t)
}

func (st *State) unsupported(msg string) {
	panic(unsupportedErr{msg})
}

type unsupportedErr struct{ msg string }

// loadAt reads a value of type a.Ty at address a.
func (st *State) loadAtIn(h *HeapView, a Addr) Value {
	t := a.Ty
	k := kindOf(t)
	switch k {
	case VStruct:
		s := t.Underlying().(*types.Struct)
		v := Value{K: VStruct, Ty: t}
		for i := 0; i < s.NumFields(); i++ {
			fa := a
			fa.Key = a.Key + "." + fieldName(s, i)
			fa.Ty = s.Field(i).Type()
			v.Fs = append(v.Fs, st.loadAtIn(h, fa))
		}
		return v
	case VSlice:
		v := Value{K: VSlice, Ty: t}
		idx := a.indices()
		v.Arr = selectChain(st.heapTermIn(h, a.Key+"#arr", len(idx), "Int"), idx)
		v.Off = selectChain(st.heapTermIn(h, a.Key+"#off", len(idx), "Int"), idx)
		v.Len = selectChain(st.heapTermIn(h, a.Key+"#len", len(idx), "Int"), idx)
		v.Cap = selectChain(st.heapTermIn(h, a.Key+"#cap", len(idx), "Int"), idx)
		if st.constRoots[a.Root] && len(a.Idx) == 0 && a.Key == rootKey(t) {
			v.Arr, v.Off = "(ccell_arr "+a.Root+")", "(ccell_off "+a.Root+")"
			v.Len, v.Cap = "(ccell_len "+a.Root+")", "(ccell_cap "+a.Root+")"
		}
		st.assumeSliceInv(v)
		if st.quietInv == 0 && st.fx.eng.nonNilGlobals[a.Key] {
			st.assume("(not (= " + v.Arr + " 0))")
		}
		return v
	case VArray:
		arr := t.Underlying().(*types.Array)
		ek := kindOf(arr.Elem())
		if ek >= VSlice || len(a.Idx) > 0 {
			st.unsupported("load of array value with aggregate elements: " + typeKey(t))
		}
		idx := a.indices()
		term := selectChain(st.heapTermIn(h, a.Key, len(idx)+1, scalarSort(ek)), idx)
		return Value{K: VArray, T: term, Ty: t}
	case VTuple:
		st.unsupported("load of tuple")
	}
	idx := a.indices()
	term := selectChain(st.heapTermIn(h, a.Key, len(idx), scalarSort(k)), idx)
	if st.constRoots[a.Root] && len(a.Idx) == 0 && a.Key == rootKey(t) {
		term = fmt.Sprintf("(ccell_%s %s)", scalarSort(k), a.Root)
	}
	v := Value{K: k, T: term, Ty: t}
	st.assumeTypeInv(v)
	if !strings.HasPrefix(a.Key, "cell:") {
		// (the declared non-nil invariant holds for struct fields, elements and globals, whose
		// stores are checked; a local or captured variable may hold nil: what a closure may assume
		// about it is proved where the closure is created)
		st.assumeNonNil(v)
	}
	if st.quietInv == 0 && st.fx.eng.nonNilGlobals[a.Key] && (k == VRef || k == VIface || k == VFunc || k == VMap || k == VChan) {
		st.assume("(not (= " + term + " 0))")
	}
	return v
}

func (st *State) loadAt(a Addr) Value { return st.loadAtIn(st.heap, a) }

func (st *State) storeAt(a Addr, v Value) {
	t := a.Ty
	k := kindOf(t)
	switch k {
	case VStruct:
		s := t.Underlying().(*types.Struct)
		if v.K != VStruct || len(v.Fs) != s.NumFields() {
			st.unsupported("store of non-struct value into struct location")
		}
		for i := 0; i < s.NumFields(); i++ {
			fa := a
			fa.Key = a.Key + "." + fieldName(s, i)
			fa.Ty = s.Field(i).Type()
			st.storeAt(fa, v.Fs[i])
		}
		return
	case VSlice:
		if v.K != VSlice {
			st.unsupported("store of non-slice into slice location")
		}
		idx := a.indices()
		for _, c := range [][2]string{{"#arr", v.Arr}, {"#off", v.Off}, {"#len", v.Len}, {"#cap", v.Cap}} {
			h := st.heapTermIn(st.heap, a.Key+c[0], len(idx), "Int")
			st.heapSet(a.Key+c[0], storeChain(h, idx, c[1]))
			if st.constRoots[a.Root] && len(a.Idx) == 0 && a.Key == rootKey(t) {
				st.assume(fmt.Sprintf("(= (ccell_%s %s) %s)", c[0][1:], a.Root, c[1]))
			}
		}
		return
	case VArray:
		arr := t.Underlying().(*types.Array)
		ek := kindOf(arr.Elem())
		if ek >= VSlice || len(a.Idx) > 0 || v.K != VArray {
			st.unsupported("store of array value: " + typeKey(t))
		}
		idx := a.indices()
		h := st.heapTermIn(st.heap, a.Key, len(idx)+1, scalarSort(ek))
		st.heapSet(a.Key, storeChain(h, idx, v.T))
		return
	}
	if v.K == VAddr {
		v = st.addrToRef(v)
	}
	if v.K >= VSlice {
		st.unsupported(fmt.Sprintf("store of %v into scalar location %s", v.K, a.Key))
	}
	idx := a.indices()
	h := st.heapTermIn(st.heap, a.Key, len(idx), scalarSort(k))
	st.heapSet(a.Key, storeChain(h, idx, v.T))
	if st.constRoots[a.Root] && len(a.Idx) == 0 && a.Key == rootKey(t) {
		st.assume(fmt.Sprintf("(= (ccell_%s %s) %s)", scalarSort(k), a.Root, v.T))
	}
}

func (st *State) markConst(root string) {
	if st.constRoots == nil {
		st.constRoots = map[string]bool{}
	}
	st.constRoots[root] = true
}

// addrToRef converts an address into a storable reference when it denotes a whole object.
func (st *State) addrToRef(v Value) Value {
	a := v.A
	if len(a.Idx) == 0 && a.Key == rootKey(a.Ty) && !strings.HasPrefix(a.Key, "global:") {
		return Value{K: VRef, T: a.Root, Ty: types.NewPointer(a.Ty)}
	}
	st.unsupported("interior address escapes: " + a.Key)
	return Value{}
}

func (st *State) assumeSliceInv(v Value) {
	if st.quietInv > 0 {
		return
	}
	st.assume(fmt.Sprintf("(and (<= 0 %s) (<= 0 %s) (<= 0 %s) (<= %s %s) (< %s %s) (<= (+ %s %s) 4611686018427387904))", v.Arr, v.Off, v.Len, v.Len, v.Cap, v.Arr, st.brk, v.Off, v.Cap))
	st.assume(fmt.Sprintf("(=> (= %s 0) (= %s 0))", v.Arr, v.Cap))
}

// assumeNonNil applies the declared non-nil invariants (heap locations and parameters of the
// listed named types never hold nil).
func (st *State) assumeNonNil(v Value) {
	if st.quietInv > 0 || len(st.fx.eng.cs.NonNil) == 0 {
		return
	}
	switch v.K {
	case VRef, VIface, VFunc, VMap, VChan:
		if v.Ty != nil && st.fx.eng.cs.NonNil[fullTypeName(v.Ty)] {
			st.assume("(not (= " + v.T + " 0))")
		}
	case VStruct, VTuple:
		for _, f := range v.Fs {
			st.assumeNonNil(f)
		}
	}
}

func (st *State) assumeTypeInv(v Value) {
	if st.quietInv > 0 {
		return
	}
	switch v.K {
	case VInt:
		st.assume(inRange(v.T, v.Ty))
	case VRef, VIface, VFunc, VMap, VChan:
		st.assume(fmt.Sprintf("(and (<= 0 %s) (< %s %s))", v.T, v.T, st.brk))
	case VSlice:
		st.assumeSliceInv(v)
	case VStruct, VTuple:
		for _, f := range v.Fs {
			st.assumeTypeInv(f)
		}
	}
}

// fresh creates an unconstrained symbolic value of type t (with type invariants).
func (st *State) fresh(t types.Type, hint string) Value {
	v := st.freshNoInv(t, hint)
	st.assumeTypeInv(v)
	return v
}

func (st *State) named(t types.Type, name string) Value {
	// deterministic name (no counter): used for parameters and rematerialised values
	v := st.mk(t, func(suffix string) string { return sym(name + suffix) })
	st.assumeTypeInv(v)
	return v
}

func (st *State) freshNoInv(t types.Type, hint string) Value {
	st.fx.counter++
	n := st.fx.counter
	return st.mk(t, func(suffix string) string { return sym(fmt.Sprintf("%s%s!%d", hint, suffix, n)) })
}

func (st *State) mk(t types.Type, nm func(string) string) Value {
	k := kindOf(t)
	switch k {
	case VStruct:
		s := t.Underlying().(*types.Struct)
		v := Value{K: VStruct, Ty: t}
		for i := 0; i < s.NumFields(); i++ {
			fn := fieldName(s, i)
			v.Fs = append(v.Fs, st.mk(s.Field(i).Type(), func(suf string) string { return nm("." + fn + suf) }))
		}
		return v
	case VTuple:
		tp := t.(*types.Tuple)
		v := Value{K: VTuple, Ty: t}
		for i := 0; i < tp.Len(); i++ {
			ii := i
			v.Fs = append(v.Fs, st.mk(tp.At(i).Type(), func(suf string) string { return nm(fmt.Sprintf("#%d%s", ii, suf)) }))
		}
		return v
	case VSlice:
		v := Value{K: VSlice, Ty: t, Arr: nm("#arr"), Off: nm("#off"), Len: nm("#len"), Cap: nm("#cap")}
		for _, c := range []string{v.Arr, v.Off, v.Len, v.Cap} {
			st.declare(c, "Int")
		}
		return v
	case VArray:
		arr := t.Underlying().(*types.Array)
		ek := kindOf(arr.Elem())
		if ek >= VSlice {
			st.unsupported("array value with aggregate elements")
		}
		name := nm("")
		st.declare(name, "(Array Int "+scalarSort(ek)+")")
		return Value{K: VArray, T: name, Ty: t}
	}
	name := nm("")
	st.declare(name, scalarSort(k))
	return Value{K: k, T: name, Ty: t}
}

// zero value of a type
func (st *State) zero(t types.Type) Value {
	k := kindOf(t)
	switch k {
	case VStruct:
		s := t.Underlying().(*types.Struct)
		v := Value{K: VStruct, Ty: t}
		for i := 0; i < s.NumFields(); i++ {
			v.Fs = append(v.Fs, st.zero(s.Field(i).Type()))
		}
		return v
	case VSlice:
		return Value{K: VSlice, Ty: t, Arr: "0", Off: "0", Len: "0", Cap: "0"}
	case VBool:
		return Value{K: VBool, T: "false", Ty: t}
	case VReal:
		return Value{K: VReal, T: "0.0", Ty: t}
	case VStr:
		return Value{K: VStr, T: "str_empty", Ty: t}
	case VArray:
		arr := t.Underlying().(*types.Array)
		ek := kindOf(arr.Elem())
		if ek >= VSlice {
			st.unsupported("zero array with aggregate elements")
		}
		z := st.zero(arr.Elem())
		return Value{K: VArray, T: fmt.Sprintf("((as const (Array Int %s)) %s)", scalarSort(ek), z.T), Ty: t}
	case VTuple:
		st.unsupported("zero tuple")
	}
	return Value{K: k, T: "0", Ty: t}
}

// alloc creates a fresh reference and zero-initialises an object of type t there.
func (st *State) alloc(t types.Type) Value {
	r := st.freshName("new")
	st.declare(r, "Int")
	st.assume(fmt.Sprintf("(and (= %s %s) (> %s 0))", r, st.brk, r))
	nb := st.freshName("brk")
	st.declare(nb, "Int")
	st.assume(fmt.Sprintf("(= %s (+ %s 1))", nb, st.brk))
	st.brk = nb
	if arr, ok := t.Underlying().(*types.Array); ok {
		ek := kindOf(arr.Elem())
		if ek < VSlice {
			key := "elem:" + typeKey(arr.Elem())
			h := st.heapTermIn(st.heap, key, 2, scalarSort(ek))
			z := st.zero(arr.Elem())
			st.heapSet(key, fmt.Sprintf("(store %s %s ((as const (Array Int %s)) %s))", h, r, scalarSort(ek), z.T))
		}
		// aggregate elements: left unconstrained-but-fresh (zeroing would need per-leaf const arrays)
		if ek == VStruct || ek == VSlice || ek == VStr {
			st.zeroElems(r, arr.Elem(), "elem:"+typeKey(arr.Elem()))
		}
		// ghosts declared over backing arrays (ghost g(array) T) start at their zero value
		st.initGhostsNamed(r, "array")
		return Value{K: VRef, T: r, Ty: types.NewPointer(t)}
	}
	st.storeAt(Addr{Root: r, Key: rootKey(t), Ty: t}, st.zero(t))
	st.initGhosts(r, t)
	if fullTypeName(t) == "sync.WaitGroup" {
		for _, g := range [][3]string{{"wg_added", "Int", "0"}, {"wg_done", "Int", "0"}, {"wg_waited", "Bool", "false"}} {
			h := st.heapTermIn(st.heap, "ghost:"+g[0], 1, g[1])
			st.heapSet("ghost:"+g[0], fmt.Sprintf("(store %s %s %s)", h, r, g[2]))
		}
	}
	if hasMutex(t, 0) {
		// a new mutex is unlocked
		h := st.heapTermIn(st.heap, "ghost:mu_held", 1, "Bool")
		st.heapSet("ghost:mu_held", fmt.Sprintf("(store %s %s false)", h, r))
	}
	return Value{K: VRef, T: r, Ty: types.NewPointer(t)}
}

// zeroElems sets all elements of backing array r (element type et, key prefix) to zero.
func (st *State) zeroElems(r string, et types.Type, key string) {
	switch kindOf(et) {
	case VStruct:
		s := et.Underlying().(*types.Struct)
		for i := 0; i < s.NumFields(); i++ {
			st.zeroElems(r, s.Field(i).Type(), key+"."+fieldName(s, i))
		}
	case VSlice:
		for _, c := range []string{"#arr", "#off", "#len", "#cap"} {
			h := st.heapTermIn(st.heap, key+c, 2, "Int")
			st.heapSet(key+c, fmt.Sprintf("(store %s %s ((as const (Array Int Int)) 0))", h, r))
		}
	case VArray, VTuple:
		// not modelled
	default:
		k := kindOf(et)
		z := st.zero(et)
		h := st.heapTermIn(st.heap, key, 2, scalarSort(k))
		st.heapSet(key, fmt.Sprintf("(store %s %s ((as const (Array Int %s)) %s))", h, r, scalarSort(k), z.T))
	}
}

func sortedKeys(m map[string]bool) []string {
	var ks []string
	for k := range m {
		ks = append(ks, k)
	}
	sort.Strings(ks)
	return ks
}

// initGhosts gives ghost fields declared for type t their default value on a fresh object
// (and, for struct types, on embedded/by-value fields is not attempted: only the object itself).
func (st *State) initGhosts(r string, t types.Type) {
	st.initGhostsNamed(r, fullTypeName(t))
}

func (st *State) initGhostsNamed(r string, name string) {
	for _, g := range st.fx.eng.cs.Ghosts {
		if g.Arg != name {
			continue
		}
		sort, _ := ghostSort(g)
		z := "0"
		switch g.Res {
		case "bool":
			z = "false"
		case "str":
			z = "str_empty"
		case "real":
			z = "0.0"
		case "bytes", "ints":
			z = "((as const (Array Int Int)) 0)"
		case "reals":
			z = "((as const (Array Int Real)) 0.0)"
		case "strs":
			z = "((as const (Array Int Str)) str_empty)"
		}
		h := st.heapTermIn(st.heap, "ghost:"+g.Name, 1, sort)
		st.heapSet("ghost:"+g.Name, fmt.Sprintf("(store %s %s %s)", h, r, z))
	}
}

func hasMutex(t types.Type, d int) bool {
	if n := fullTypeName(t); n == "sync.Mutex" || n == "sync.RWMutex" {
		return true
	}
	if s, ok := t.Underlying().(*types.Struct); ok && d < 3 {
		for i := 0; i < s.NumFields(); i++ {
			if hasMutex(s.Field(i).Type(), d+1) {
				return true
			}
		}
	}
	return false
}
