package main

// Contract files: comment-only Go files (verif_contracts.go, //go:build verif) next to the
// code in /repo, plus library externs under /verif/contracts/*.vc. Every contract line
// starts with "//@". Grammar (line oriented, a line that does not start with a keyword
// continues the previous clause):
//
//   func <name>            name as go/ssa prints it relative to the package: f, (*T).M, T.M, f$1
//   extern <pkgpath>.<name>   contract assumed for a function outside the packages under proof
//   functype <pkgpath>.<TypeName>   contract for calls through values of a named func type
//   iface <pkgpath>.<Iface>.<Method>   contract for interface method invocations
//     params (a, b, c)        optional: names for parameters (extern/functype/iface; receiver first, named "this")
//     results (r, ok)         optional: names for results (default result / result0..n)
//     requires <e>
//     ensures <e>
//     modifies <loc>, <loc>   loc: x.f | x.* | x[..] | ghost g | heap | nothing
//     loop <n> invariant <e>  n = ordinal of the loop header in block order (1-based)
//     loop <n> decreases <e>
//     loop <n> modifies <loc>
//     pure                    no heap effect (same as modifies nothing)
//     trusted                 body not verified (counted as assumption)
//     noinline
//   pred <name>(<args>) := <e>
//   ghost <name>(<kind>) <kind>          kind: int | bool | str | bytes | real
//   smt ... end                          raw SMT-LIB declarations / axioms
//   lemma <name> : <e>                   closed formula over spec functions, proved on its own
//   assume <name> : <e>                  axiom (listed in evidence)

import (
	"fmt"
	"os"
	"strconv"
	"strings"
	"unicode"
)

type LoopSpec struct {
	Invs     []*Clause
	Decr     *Clause
	Modifies []string
}

type Clause struct {
	Text string
	E    *Expr
	File string
	Line int
	Tag  string // optional label "[name]" at start
}

type FuncContract struct {
	Kind      string // func | extern | functype | iface
	Name      string
	Params    []string
	Results   []string
	Requires  []*Clause
	Ensures   []*Clause
	Modifies  []string
	HasMod    bool
	Loops     map[int]*LoopSpec
	Pure      bool
	Trusted   bool
	NoInline  bool
	Panics    bool // explicit panics allowed (reported as precondition of callers)
	File      string
	Line      int
	Pkg       string // package path of the contract file ("" for library files)
	Used      bool
	At        string // source text fingerprint: binds the contract to the function containing this text
	Asserts   []*AssertAt
	GhostSets []*GhostSet
	RelName   string
}

// AssertAt is an inline assertion: proved just before the first instruction of the source line
// containing the fingerprint text (names resolve to the locals visible there).
type AssertAt struct {
	At  string
	Nth int // 1-based: the Nth distinct source line containing the text (0 = first)
	C   *Clause
}

// GhostSet is a ghost assignment performed when the function returns: g(arg) := value
// (value may use old()). Callers see it as a postcondition.
type GhostSet struct {
	At    string // "" = at function return; otherwise just before the anchored source line
	Nth   int
	Ghost string
	Arg   *Expr
	Val   *Expr
	Text  string
	// havoc statement (Ghost == ""): forget these heap key prefixes at the anchor (the effect of
	// a callback the callee's contract cannot name)
	HavocKeys []string
}

type PredDef struct {
	Name   string
	Params []string
	Body   *Expr
}

type GhostDef struct {
	Name string
	Arg  string
	Res  string
}

type Lemma struct {
	Name   string
	C      *Clause
	Assume bool
	Pkg    string
}

type SmtFun struct {
	Name string
	Args []string
	Res  string
}

type Contracts struct {
	Funcs     map[string]*FuncContract // key: kind-independent full name, e.g. "rare/pkg/readahead.(*ImmediateReadAhead).Scan", "bytes.IndexByte"
	Preds     map[string]*PredDef
	Ghosts    map[string]*GhostDef
	Lemmas    []*Lemma
	SmtRaw    []string
	SmtFuns   map[string]*SmtFun
	SmtDup    []string // spec functions defined more than once across the loaded contract files
	Files     []string
	NonNil    map[string]bool      // named types whose values are assumed non-nil (listed assumption)
	GlobalInv map[string][]*Clause // package path -> invariants over init-only package variables
	IndLemmas []*IndLemma
	Guarded   map[string]string         // heap key of a field -> name of the mutex field (same struct) that guards it
	Atomic    map[string]bool           // heap keys of fields that may only be accessed through sync/atomic
	Private   map[string][]*PrivateDecl // package path -> types only this package's listed functions write
}

// PrivateDecl: the fields of Type (unexported, or only written inside the package) are written by
// the listed functions only. Opaque callees (modifies world) are assumed not to reach those
// writers, so their calls leave the fields alone; the writer list itself is an obligation.
type PrivateDecl struct {
	Pkg, Type, Prefix string
	Writers           []string
	Line              int
}

// IndLemma is a lemma over spec functions proved by induction on an integer variable:
// base: claim[v := from]; step: v >= from && claim ==> claim[v := v+1]. Once both VCs are
// discharged the universally quantified lemma is available as a hypothesis (with the pattern).
type IndLemma struct {
	Name, Vars, Var, From, Claim, Pattern string
	File                                  string
	Line                                  int
}

func NewContracts() *Contracts {
	cs := newContracts0()
	cs.scanSmtDecls(preludeCore)
	return cs
}

func newContracts0() *Contracts {
	return &Contracts{Funcs: map[string]*FuncContract{}, Preds: map[string]*PredDef{}, Ghosts: map[string]*GhostDef{}, SmtFuns: map[string]*SmtFun{}, NonNil: map[string]bool{}, GlobalInv: map[string][]*Clause{}, Guarded: map[string]string{}, Atomic: map[string]bool{}, Private: map[string][]*PrivateDecl{}}
}

var clauseKeywords = map[string]bool{"func": true, "extern": true, "functype": true, "iface": true, "params": true, "results": true,
	"requires": true, "ensures": true, "assert": true, "ghostset": true, "havoc": true, "modifies": true, "loop": true, "pure": true, "trusted": true, "noinline": true, "panics": true,
	"pred": true, "ghost": true, "smt": true, "lemma": true, "assume": true, "end": true, "nonnil": true, "globalinv": true, "lemma_ind": true, "guarded": true, "atomicfield": true, "private": true}

func firstWord(s string) string {
	s = strings.TrimSpace(s)
	for i, r := range s {
		if !(unicode.IsLetter(r) || r == '_') {
			return s[:i]
		}
	}
	return s
}

// LoadContractFile parses one contract file. pkgPath is the import path of the package the
// file belongs to ("" for library contract files).
func (cs *Contracts) LoadContractFile(path, pkgPath string) error {
	data, err := os.ReadFile(path)
	if err != nil {
		return err
	}
	cs.Files = append(cs.Files, path)
	type ln struct {
		text string
		no   int
	}
	var lines []ln
	for i, raw := range strings.Split(string(data), "\n") {
		t := strings.TrimSpace(raw)
		if strings.HasPrefix(t, "//@") {
			t = strings.TrimPrefix(t, "//@")
		} else if strings.HasPrefix(t, "// @") { // gofmt may rewrite
			t = strings.TrimPrefix(t, "// @")
		} else {
			continue
		}
		// strip trailing comment " // ..." (not inside strings/chars)
		t = stripLineComment(t)
		if strings.TrimSpace(t) == "" {
			continue
		}
		lines = append(lines, ln{t, i + 1})
	}
	// group into clauses
	type cl struct {
		kw   string
		text string
		no   int
	}
	var cls []cl
	inSmt := false
	for _, l := range lines {
		w := firstWord(l.text)
		if inSmt {
			if w == "end" && strings.TrimSpace(l.text) == "end" {
				inSmt = false
				continue
			}
			cls[len(cls)-1].text += "\n" + l.text
			continue
		}
		if clauseKeywords[w] {
			rest := strings.TrimSpace(strings.TrimPrefix(strings.TrimSpace(l.text), w))
			cls = append(cls, cl{w, rest, l.no})
			if w == "smt" {
				inSmt = true
			}
		} else {
			if len(cls) == 0 {
				return fmt.Errorf("%s:%d: continuation without clause", path, l.no)
			}
			cls[len(cls)-1].text += " " + strings.TrimSpace(l.text)
		}
	}
	var cur *FuncContract
	mkClause := func(text string, no int) (*Clause, error) {
		c := &Clause{Text: text, File: path, Line: no}
		t := strings.TrimSpace(text)
		if strings.HasPrefix(t, "[") {
			if j := strings.Index(t, "]"); j > 0 {
				c.Tag = t[1:j]
				t = strings.TrimSpace(t[j+1:])
			}
		}
		e, err := ParseExpr(t)
		if err != nil {
			return nil, fmt.Errorf("%s:%d: %v in %q", path, no, err, t)
		}
		c.E = e
		c.Text = t
		return c, nil
	}
	for _, c := range cls {
		switch c.kw {
		case "func", "extern", "functype", "iface":
			name := strings.TrimSpace(c.text)
			at := ""
			if i := strings.Index(name, " at \""); i > 0 {
				at = strings.TrimSuffix(strings.TrimSpace(name[i+4:]), "\"")
				at = strings.TrimPrefix(at, "\"")
				name = strings.TrimSpace(name[:i])
			}
			full := name
			if c.kw == "func" && pkgPath != "" {
				full = pkgPath + "." + name
			}
			cur = &FuncContract{Kind: c.kw, Name: full, Loops: map[int]*LoopSpec{}, File: path, Line: c.no, Pkg: pkgPath, At: at, RelName: name}
			if prev, dup := cs.Funcs[full]; dup && c.kw == "extern" && pkgPath != "" && prev.Pkg != "" && prev.Pkg != pkgPath {
				// what one package assumes about a function of another package that has a contract of
				// its own: used for calls from that package only
				full = full + "@" + pkgPath
				cur.Name = full
			}
			if prev, dup := cs.Funcs[full]; dup && !(prev.Pkg == "" && pkgPath != "" && prev.Kind == "extern" && c.kw == "extern") {
				// (an extern stated next to the code that relies on it replaces the generic library one)
				return fmt.Errorf("%s:%d: duplicate contract for %s", path, c.no, full)
			}
			cs.Funcs[full] = cur
		case "params", "results":
			if cur == nil {
				return fmt.Errorf("%s:%d: %s outside func", path, c.no, c.kw)
			}
			t := strings.Trim(strings.TrimSpace(c.text), "()")
			var names []string
			for _, p := range strings.Split(t, ",") {
				p = strings.TrimSpace(p)
				if p != "" {
					names = append(names, p)
				}
			}
			if c.kw == "params" {
				cur.Params = names
			} else {
				cur.Results = names
			}
		case "requires", "ensures":
			if cur == nil {
				return fmt.Errorf("%s:%d: %s outside func", path, c.no, c.kw)
			}
			k, err := mkClause(c.text, c.no)
			if err != nil {
				return err
			}
			if c.kw == "requires" {
				cur.Requires = append(cur.Requires, k)
			} else {
				cur.Ensures = append(cur.Ensures, k)
			}
		case "havoc":
			// havoc at "<text>"[#n] : Type.field[, Type.field]
			if cur == nil {
				return fmt.Errorf("%s:%d: havoc outside func", path, c.no)
			}
			htext := strings.TrimSpace(c.text)
			if !strings.HasPrefix(htext, "at \"") {
				return fmt.Errorf("%s:%d: havoc needs an anchor", path, c.no)
			}
			hr := htext[4:]
			hq := strings.Index(hr, "\"")
			if hq < 0 {
				return fmt.Errorf("%s:%d: bad havoc anchor", path, c.no)
			}
			hat, hn := hr[:hq], 0
			hr = strings.TrimSpace(hr[hq+1:])
			if strings.HasPrefix(hr, "#") {
				j := 1
				for j < len(hr) && hr[j] >= '0' && hr[j] <= '9' {
					j++
				}
				hn, _ = strconv.Atoi(hr[1:j])
				hr = strings.TrimSpace(hr[j:])
			}
			hr = strings.TrimSpace(strings.TrimPrefix(hr, ":"))
			hg := &GhostSet{At: hat, Nth: hn, Text: c.text}
			for _, f := range strings.Split(hr, ",") {
				if f = strings.TrimSpace(f); f != "" {
					hg.HavocKeys = append(hg.HavocKeys, strings.TrimPrefix(pkgPath, "rare/")+"."+f)
				}
			}
			cur.GhostSets = append(cur.GhostSets, hg)
		case "ghostset":
			if cur == nil {
				return fmt.Errorf("%s:%d: ghostset outside func", path, c.no)
			}
			gtext := strings.TrimSpace(c.text)
			gat, gnth := "", 0
			if strings.HasPrefix(gtext, "at \"") {
				r := gtext[4:]
				q := strings.Index(r, "\"")
				if q < 0 {
					return fmt.Errorf("%s:%d: bad ghostset anchor", path, c.no)
				}
				gat = r[:q]
				r = strings.TrimSpace(r[q+1:])
				if strings.HasPrefix(r, "#") {
					j := 1
					for j < len(r) && r[j] >= '0' && r[j] <= '9' {
						j++
					}
					gnth, _ = strconv.Atoi(r[1:j])
					r = strings.TrimSpace(r[j:])
				}
				gtext = strings.TrimSpace(strings.TrimPrefix(r, ":"))
			}
			c.text = gtext
			i := strings.Index(c.text, ":=")
			lp := strings.Index(c.text, "(")
			if i < 0 || lp < 0 || lp > i {
				return fmt.Errorf("%s:%d: ghostset needs g(arg) := expr", path, c.no)
			}
			lhs := strings.TrimSpace(c.text[:i])
			rp := strings.LastIndex(lhs, ")")
			argE, err := ParseExpr(lhs[lp+1 : rp])
			if err != nil {
				return fmt.Errorf("%s:%d: %v", path, c.no, err)
			}
			valE, err := ParseExpr(strings.TrimSpace(c.text[i+2:]))
			if err != nil {
				return fmt.Errorf("%s:%d: %v", path, c.no, err)
			}
			cur.GhostSets = append(cur.GhostSets, &GhostSet{At: gat, Nth: gnth, Ghost: strings.TrimSpace(lhs[:lp]), Arg: argE, Val: valE, Text: c.text})
		case "assert":
			// assert at "<source text>" : <expr>
			if cur == nil {
				return fmt.Errorf("%s:%d: assert outside func", path, c.no)
			}
			t := strings.TrimSpace(c.text)
			if !strings.HasPrefix(t, "at \"") {
				return fmt.Errorf("%s:%d: assert needs: at \"<text>\" : <expr>", path, c.no)
			}
			t = t[4:]
			q := strings.Index(t, "\" :")
			if q2 := strings.Index(t, "\"#"); q2 >= 0 && (q < 0 || q2 < q) {
				q = q2
			}
			if q < 0 {
				return fmt.Errorf("%s:%d: assert needs: at \"<text>\" : <expr>", path, c.no)
			}
			rest := strings.TrimSpace(t[q+1:])
			nth := 0
			if strings.HasPrefix(rest, "#*") {
				// every source line of the function that contains the text
				nth = -1
				rest = strings.TrimSpace(rest[2:])
			} else if strings.HasPrefix(rest, "#") {
				j := 1
				for j < len(rest) && rest[j] >= '0' && rest[j] <= '9' {
					j++
				}
				nth, _ = strconv.Atoi(rest[1:j])
				rest = strings.TrimSpace(rest[j:])
			}
			rest = strings.TrimSpace(strings.TrimPrefix(rest, ":"))
			k, err := mkClause(rest, c.no)
			if err != nil {
				return err
			}
			cur.Asserts = append(cur.Asserts, &AssertAt{At: t[:q], Nth: nth, C: k})
		case "modifies":
			if cur == nil {
				return fmt.Errorf("%s:%d: modifies outside func", path, c.no)
			}
			cur.HasMod = true
			if t := strings.TrimSpace(c.text); strings.HasPrefix(t, "world except ") {
				// "world except T, U, ghost g": one location with a list of exceptions
				cur.Modifies = append(cur.Modifies, t)
				break
			}
			for _, p := range splitTop(c.text, ',') {
				p = strings.TrimSpace(p)
				if p != "" && p != "nothing" {
					cur.Modifies = append(cur.Modifies, p)
				}
			}
		case "pure":
			cur.Pure, cur.HasMod = true, true
		case "trusted":
			cur.Trusted = true
		case "noinline":
			cur.NoInline = true
		case "panics":
			cur.Panics = true
		case "loop":
			if cur == nil {
				return fmt.Errorf("%s:%d: loop outside func", path, c.no)
			}
			f := strings.Fields(c.text)
			if len(f) < 2 {
				return fmt.Errorf("%s:%d: bad loop clause", path, c.no)
			}
			n, err := strconv.Atoi(f[0])
			if err != nil {
				return fmt.Errorf("%s:%d: bad loop ordinal", path, c.no)
			}
			ls := cur.Loops[n]
			if ls == nil {
				ls = &LoopSpec{}
				cur.Loops[n] = ls
			}
			rest := strings.TrimSpace(strings.TrimPrefix(strings.TrimSpace(c.text), f[0]))
			kw := firstWord(rest)
			rest = strings.TrimSpace(strings.TrimPrefix(rest, kw))
			switch kw {
			case "invariant":
				k, err := mkClause(rest, c.no)
				if err != nil {
					return err
				}
				ls.Invs = append(ls.Invs, k)
			case "decreases":
				k, err := mkClause(rest, c.no)
				if err != nil {
					return err
				}
				ls.Decr = k
			case "modifies":
				for _, p := range splitTop(rest, ',') {
					p = strings.TrimSpace(p)
					if p != "" {
						ls.Modifies = append(ls.Modifies, p)
					}
				}
			default:
				return fmt.Errorf("%s:%d: bad loop clause %q", path, c.no, kw)
			}
		case "pred":
			// name(args) := expr
			i := strings.Index(c.text, ":=")
			if i < 0 {
				return fmt.Errorf("%s:%d: pred without :=", path, c.no)
			}
			head := strings.TrimSpace(c.text[:i])
			lp := strings.Index(head, "(")
			if lp < 0 || !strings.HasSuffix(head, ")") {
				return fmt.Errorf("%s:%d: bad pred head", path, c.no)
			}
			pd := &PredDef{Name: strings.TrimSpace(head[:lp])}
			for _, p := range strings.Split(head[lp+1:len(head)-1], ",") {
				p = strings.TrimSpace(p)
				if p != "" {
					pd.Params = append(pd.Params, strings.Fields(p)[0])
				}
			}
			e, err := ParseExpr(strings.TrimSpace(c.text[i+2:]))
			if err != nil {
				return fmt.Errorf("%s:%d: %v", path, c.no, err)
			}
			pd.Body = e
			cs.Preds[pd.Name] = pd
		case "ghost":
			// name(kind) kind
			t := c.text
			lp, rp := strings.Index(t, "("), strings.Index(t, ")")
			if lp < 0 || rp < lp {
				return fmt.Errorf("%s:%d: bad ghost decl", path, c.no)
			}
			g := &GhostDef{Name: strings.TrimSpace(t[:lp]), Arg: strings.TrimSpace(t[lp+1 : rp]), Res: strings.TrimSpace(t[rp+1:])}
			cs.Ghosts[g.Name] = g
		case "smt":
			cs.SmtRaw = append(cs.SmtRaw, c.text)
			cs.scanSmtDecls(c.text)
		case "lemma", "assume":
			i := strings.Index(c.text, ":")
			if i < 0 {
				return fmt.Errorf("%s:%d: lemma without ':'", path, c.no)
			}
			k, err := mkClause(strings.TrimSpace(c.text[i+1:]), c.no)
			if err != nil {
				return err
			}
			cs.Lemmas = append(cs.Lemmas, &Lemma{Name: strings.TrimSpace(c.text[:i]), C: k, Assume: c.kw == "assume", Pkg: pkgPath})
		case "nonnil":
			cs.NonNil[strings.TrimSpace(c.text)] = true
		case "lemma_ind":
			// name | vars (...) | induction v from e | claim <smt> | pattern (<terms>)
			parts := strings.Split(c.text, "|")
			if len(parts) != 5 {
				return fmt.Errorf("%s:%d: lemma_ind needs: name | vars | induction v from e | claim | pattern", path, c.no)
			}
			il := &IndLemma{Name: strings.TrimSpace(parts[0]), File: path, Line: c.no}
			il.Vars = strings.TrimSpace(strings.TrimPrefix(strings.TrimSpace(parts[1]), "vars"))
			ind := strings.Fields(strings.TrimSpace(parts[2]))
			if len(ind) < 4 || ind[0] != "induction" || ind[2] != "from" {
				return fmt.Errorf("%s:%d: bad induction clause", path, c.no)
			}
			il.Var, il.From = ind[1], strings.Join(ind[3:], " ")
			il.Claim = strings.TrimSpace(strings.TrimPrefix(strings.TrimSpace(parts[3]), "claim"))
			il.Pattern = strings.TrimSpace(strings.TrimPrefix(strings.TrimSpace(parts[4]), "pattern"))
			cs.IndLemmas = append(cs.IndLemmas, il)
			// the lemma is usable as a hypothesis everywhere (its proof is an obligation of every
			// property that loads this contract file)
			cs.SmtRaw = append(cs.SmtRaw, fmt.Sprintf("(assert (forall %s (! (=> (>= %s %s) %s) :pattern %s)))", il.Vars, il.Var, il.From, il.Claim, il.Pattern))
		case "guarded":
			// guarded <Type>.<field>[, <field>...] by <mutexField>
			f := strings.Fields(strings.ReplaceAll(c.text, ",", " "))
			if len(f) < 3 || f[len(f)-2] != "by" {
				return fmt.Errorf("%s:%d: guarded needs: Type.field[, field] by mutexField", path, c.no)
			}
			first := f[0]
			dot := strings.LastIndex(first, ".")
			if dot < 0 {
				return fmt.Errorf("%s:%d: guarded needs Type.field", path, c.no)
			}
			tname := first[:dot]
			prefix := strings.TrimPrefix(pkgPath, "rare/") + "." + tname
			fields := append([]string{first[dot+1:]}, f[1:len(f)-2]...)
			for _, fl := range fields {
				cs.Guarded[prefix+"."+fl] = f[len(f)-1]
			}
		case "private":
			// private <Type> writers f1, f2, ...
			f := strings.Fields(strings.ReplaceAll(c.text, ",", " "))
			if len(f) < 2 || f[1] != "writers" {
				return fmt.Errorf("%s:%d: private needs: Type writers f1, f2, ...", path, c.no)
			}
			cs.Private[pkgPath] = append(cs.Private[pkgPath], &PrivateDecl{Pkg: pkgPath, Type: f[0], Prefix: strings.TrimPrefix(pkgPath, "rare/") + "." + f[0], Writers: f[2:], Line: c.no})
		case "atomicfield":
			for _, fl := range strings.Fields(strings.ReplaceAll(c.text, ",", " ")) {
				cs.Atomic[strings.TrimPrefix(pkgPath, "rare/")+"."+fl] = true
			}
		case "globalinv":
			k, err := mkClause(c.text, c.no)
			if err != nil {
				return err
			}
			cs.GlobalInv[pkgPath] = append(cs.GlobalInv[pkgPath], k)
		case "end":
		}
	}
	return nil
}

func stripLineComment(t string) string {
	inS, inC := false, false
	for i := 0; i < len(t); i++ {
		ch := t[i]
		if ch == '\\' && (inS || inC) {
			i++
			continue
		}
		if ch == '"' && !inC {
			inS = !inS
		} else if ch == '\'' && !inS {
			inC = !inC
		} else if !inS && !inC && ch == '/' && i+1 < len(t) && t[i+1] == '/' {
			return t[:i]
		}
	}
	return t
}

func splitTop(s string, sep byte) []string {
	var out []string
	depth := 0
	last := 0
	for i := 0; i < len(s); i++ {
		switch s[i] {
		case '(', '[':
			depth++
		case ')', ']':
			depth--
		default:
			if s[i] == sep && depth == 0 {
				out = append(out, s[last:i])
				last = i + 1
			}
		}
	}
	out = append(out, s[last:])
	return out
}

// scanSmtDecls records the signatures of functions declared in raw SMT blocks so that
// contract expressions can call them.
func (cs *Contracts) scanSmtDecls(text string) {
	toks := sexpTokens(text)
	for i := 0; i+2 < len(toks); i++ {
		if toks[i] != "(" {
			continue
		}
		kw := toks[i+1]
		if kw != "declare-fun" && kw != "define-fun" && kw != "define-fun-rec" && kw != "declare-const" {
			continue
		}
		name := toks[i+2]
		if _, dup := cs.SmtFuns[name]; dup {
			// two contract files define the same spec function: every VC that sees both is ill-formed
			cs.SmtDup = append(cs.SmtDup, name)
		}
		f := &SmtFun{Name: name}
		j := i + 3
		if kw == "declare-const" {
			f.Res = toks[j]
			cs.SmtFuns[name] = f
			continue
		}
		if toks[j] != "(" {
			continue
		}
		j++
		if kw == "declare-fun" {
			for toks[j] != ")" {
				s, nj := readSort(toks, j)
				f.Args = append(f.Args, s)
				j = nj
			}
		} else {
			for toks[j] != ")" { // ((x Int) (y Str))
				// toks[j]=="(" name sort ")"
				s, nj := readSort(toks, j+2)
				f.Args = append(f.Args, s)
				j = nj + 1
			}
		}
		j++
		f.Res, _ = readSort(toks, j)
		cs.SmtFuns[name] = f
	}
}

func readSort(toks []string, j int) (string, int) {
	if j >= len(toks) { // truncated solver output
		return "", j
	}
	if toks[j] != "(" {
		return toks[j], j + 1
	}
	depth := 0
	var sb strings.Builder
	for {
		if j >= len(toks) {
			break
		}
		t := toks[j]
		if t == "(" {
			depth++
			sb.WriteString("(")
		} else if t == ")" {
			depth--
			sb.WriteString(")")
		} else {
			if sb.Len() > 0 && !strings.HasSuffix(sb.String(), "(") {
				sb.WriteString(" ")
			}
			sb.WriteString(t)
		}
		j++
		if depth == 0 {
			break
		}
	}
	return sb.String(), j
}

func sexpTokens(s string) []string {
	var toks []string
	i := 0
	for i < len(s) {
		c := s[i]
		switch {
		case c == ';':
			for i < len(s) && s[i] != '\n' {
				i++
			}
		case c == '(' || c == ')':
			toks = append(toks, string(c))
			i++
		case c == ' ' || c == '\t' || c == '\n' || c == '\r':
			i++
		case c == '"':
			j := i + 1
			for j < len(s) && s[j] != '"' {
				j++
			}
			toks = append(toks, s[i:j+1])
			i = j + 1
		case c == '|':
			j := i + 1
			for j < len(s) && s[j] != '|' {
				j++
			}
			toks = append(toks, s[i:j+1])
			i = j + 1
		default:
			j := i
			for j < len(s) && !strings.ContainsRune("() \t\n\r", rune(s[j])) {
				j++
			}
			toks = append(toks, s[i:j])
			i = j
		}
	}
	return toks
}
