package main

import "strings"

// minimal s-expression trees over SMT term strings (used to normalise quantifiers)
type sx struct {
	atom string
	kids []*sx
}

func parseSx(s string) *sx {
	toks := sexpTokens(s)
	pos := 0
	var rec func() *sx
	rec = func() *sx {
		if pos >= len(toks) {
			return &sx{atom: ""}
		}
		t := toks[pos]
		pos++
		if t != "(" {
			return &sx{atom: t}
		}
		n := &sx{}
		for pos < len(toks) && toks[pos] != ")" {
			n.kids = append(n.kids, rec())
		}
		pos++
		return n
	}
	return rec()
}

func (n *sx) String() string {
	if n.kids == nil && n.atom != "" {
		return n.atom
	}
	var sb strings.Builder
	n.write(&sb)
	return sb.String()
}

func (n *sx) write(sb *strings.Builder) {
	if n.kids == nil {
		if n.atom == "" {
			sb.WriteString("()")
		} else {
			sb.WriteString(n.atom)
		}
		return
	}
	sb.WriteByte('(')
	for i, k := range n.kids {
		if i > 0 {
			sb.WriteByte(' ')
		}
		k.write(sb)
	}
	sb.WriteByte(')')
}

func (n *sx) contains(atom string) bool {
	if n.kids == nil {
		return n.atom == atom
	}
	for _, k := range n.kids {
		if k.contains(atom) {
			return true
		}
	}
	return false
}

func (n *sx) isApp(head string, arity int) bool {
	return n.kids != nil && len(n.kids) == arity+1 && n.kids[0].kids == nil && n.kids[0].atom == head
}

func (n *sx) substAtom(atom string, by *sx) *sx {
	if n.kids == nil {
		if n.atom == atom {
			return by
		}
		return n
	}
	m := &sx{kids: make([]*sx, len(n.kids))}
	for i, k := range n.kids {
		m.kids[i] = k.substAtom(atom, by)
	}
	return m
}

// simplifyPlusMinus rewrites (+ OFF (- J OFF)) -> J.
func (n *sx) simplifyShift(off *sx, j string) *sx {
	if n.kids == nil {
		return n
	}
	if n.isApp("+", 2) {
		a, b := n.kids[1], n.kids[2]
		if a.String() == off.String() && b.isApp("-", 2) && b.kids[1].atom == j && b.kids[2].String() == off.String() {
			return &sx{atom: j}
		}
	}
	m := &sx{kids: make([]*sx, len(n.kids))}
	for i, k := range n.kids {
		m.kids[i] = k.simplifyShift(off, j)
	}
	return m
}

// collectSelects finds (select X IDX) nodes.
func (n *sx) collectSelects(out *[]*sx) {
	if n.kids == nil {
		return
	}
	if n.isApp("select", 2) || n.isApp("sat", 2) {
		*out = append(*out, n)
	}
	for _, k := range n.kids {
		k.collectSelects(out)
	}
}

// linearIn reports whether v occurs exactly once in n, positively, below + and - only.
func (n *sx) linearIn(v string) bool {
	if n.kids == nil {
		return n.atom == v
	}
	if n.kids[0].kids != nil {
		return false
	}
	switch n.kids[0].atom {
	case "+":
		cnt := 0
		ok := true
		for _, k := range n.kids[1:] {
			if k.contains(v) {
				cnt++
				if !k.linearIn(v) {
					ok = false
				}
			}
		}
		return cnt == 1 && ok
	case "-":
		if len(n.kids) != 3 {
			return false
		}
		return n.kids[1].contains(v) && n.kids[1].linearIn(v) && !n.kids[2].contains(v)
	}
	return false
}

func (n *sx) replaceSubtree(old string, by *sx) *sx {
	if n.String() == old {
		return by
	}
	if n.kids == nil {
		return n
	}
	m := &sx{kids: make([]*sx, len(n.kids))}
	for i, k := range n.kids {
		m.kids[i] = k.replaceSubtree(old, by)
	}
	return m
}

// mkQuant builds a quantified formula over variable v. For universally quantified Int
// variables the formula is normalised so that the bound variable occurs bare as an array
// index (change of variable j = I(v) for a select index I linear in v) and annotated with
// that select as pattern: E-matching then instantiates it at every index term of that array
// in the goal, whatever its arithmetic shape. With multi (hypotheses) one such version is
// produced per indexed array and the versions are conjoined.
func mkQuantM(kind, v, sort, rng, body string, multi bool) string {
	full := body
	if rng != "" {
		if kind == "forall" {
			full = "(=> " + rng + " " + body + ")"
		} else {
			full = "(and " + rng + " " + body + ")"
		}
	}
	plain := "(" + kind + " ((" + v + " " + sort + ")) " + full + ")"
	if kind != "forall" || (sort != "Int" && sort != "Str") {
		return plain
	}
	tree := parseSx(full)
	var sels []*sx
	tree.collectSelects(&sels)
	type cand struct {
		idx   string // textual index expression
		arrs  map[string]bool
		order int
	}
	var versions []string
	seenIdx := map[string]bool{}
	for _, s := range sels {
		arrNode, idxNode := s.kids[1], s.kids[2]
		if s.kids[0].atom == "sat" {
			arrNode, idxNode = s.kids[1], s.kids[2]
		}
		if arrNode.contains(v) || !idxNode.contains(v) {
			continue
		}
		key := idxNode.String()
		if seenIdx[key] {
			continue
		}
		var t2 *sx
		if idxNode.kids == nil {
			t2 = tree
		} else if sort == "Int" && idxNode.linearIn(v) {
			rest := idxNode.substAtom(v, &sx{atom: "0"})
			marker := &sx{atom: "\x00J"}
			t2 = tree.replaceSubtree(key, marker)
			t2 = t2.substAtom(v, &sx{kids: []*sx{{atom: "-"}, {atom: v}, rest}})
			t2 = t2.substAtom("\x00J", &sx{atom: v})
		} else {
			continue
		}
		seenIdx[key] = true
		// patterns: all selects of t2 whose index is bare v
		var s2 []*sx
		t2.collectSelects(&s2)
		seenP := map[string]bool{}
		var ps []string
		for _, q := range s2 {
			if q.kids[2].kids == nil && q.kids[2].atom == v && !q.kids[1].contains(v) {
				p := q.String()
				if !seenP[p] {
					seenP[p] = true
					ps = append(ps, p)
				}
			}
		}
		if len(ps) == 0 {
			continue
		}
		var sb strings.Builder
		sb.WriteString("(forall ((" + v + " " + sort + ")) (! " + t2.String())
		for _, p := range ps {
			sb.WriteString(" :pattern (" + p + ")")
		}
		sb.WriteString("))")
		versions = append(versions, sb.String())
		if !multi {
			break
		}
	}
	if len(versions) == 0 {
		return plain
	}
	if len(versions) == 1 {
		return versions[0]
	}
	return "(and " + strings.Join(versions, " ") + ")"
}

func mkQuant(kind, v, sort, rng, body string) string {
	return mkQuantM(kind, v, sort, rng, body, true)
}
