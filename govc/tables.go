package main

import (
	"fmt"
	"go/ast"
	"go/constant"
	"go/types"
	"sort"
	"strconv"

	"golang.org/x/tools/go/packages"
)

// TableCheck: finite, exhaustive obligations over a package-level composite literal
// (extracted from the typed AST of the current tree; no solver needed: ground facts).
type TableCheck struct {
	Name     string   `json:"name"`
	Pkg      string   `json:"pkg"`
	Var      string   `json:"var"`
	NonEmpty [][2]int `json:"nonempty"` // index ranges (inclusive) whose string entry must be non-empty
	// Expect: index -> exact expected string (e.g. JSON escapes)
	Expect map[string]string `json:"expect"`
	// Rows: the variable is a [][]string-like literal that must equal these rows exactly
	Rows [][]string `json:"rows"`
	// map literal checks (keys are constant strings)
	MapKeyMinLen    int      `json:"map_key_min_len"`
	MapKeyMaxLen    int      `json:"map_key_max_len"`
	MapKeysContain  []string `json:"map_keys_contain"`
	MapKeysInRows   string   `json:"map_keys_in_rows"` // every key must occur in this [][]string variable
	MapValuesNonNil bool     `json:"map_values_non_nil"`
}

// literalOf finds the composite literal initialising a package-level variable.
func (e *Engine) literalOf(pkgPath, varName string) (*ast.CompositeLit, *packages.Package) {
	for _, p := range e.loaded {
		if p.PkgPath != pkgPath {
			continue
		}
		for _, f := range p.Syntax {
			for _, d := range f.Decls {
				gd, ok := d.(*ast.GenDecl)
				if !ok {
					continue
				}
				for _, sp := range gd.Specs {
					vs, ok := sp.(*ast.ValueSpec)
					if !ok {
						continue
					}
					for i, n := range vs.Names {
						if n.Name == varName && i < len(vs.Values) {
							if cl, ok := vs.Values[i].(*ast.CompositeLit); ok {
								return cl, p
							}
						}
					}
				}
			}
		}
	}
	return nil, nil
}

func constString(p *packages.Package, e ast.Expr) (string, bool) {
	tv := p.TypesInfo.Types[e]
	if tv.Value == nil || tv.Value.Kind() != constant.String {
		return "", false
	}
	return constant.StringVal(tv.Value), true
}

// rowsOf reads a [][]string-like literal.
func (e *Engine) rowsOf(pkgPath, varName string) ([][]string, bool) {
	cl, p := e.literalOf(pkgPath, varName)
	if cl == nil {
		return nil, false
	}
	var rows [][]string
	for _, el := range cl.Elts {
		inner, ok := el.(*ast.CompositeLit)
		if !ok {
			return nil, false
		}
		var row []string
		for _, x := range inner.Elts {
			s, ok := constString(p, x)
			if !ok {
				return nil, false
			}
			row = append(row, s)
		}
		rows = append(rows, row)
	}
	return rows, true
}

// mapOf reads a map literal with constant string keys; the value expressions are returned as AST.
func (e *Engine) mapOf(pkgPath, varName string) (map[string]ast.Expr, *packages.Package, bool) {
	cl, p := e.literalOf(pkgPath, varName)
	if cl == nil {
		return nil, nil, false
	}
	out := map[string]ast.Expr{}
	for _, el := range cl.Elts {
		kv, ok := el.(*ast.KeyValueExpr)
		if !ok {
			return nil, nil, false
		}
		k, ok := constString(p, kv.Key)
		if !ok {
			return nil, nil, false
		}
		out[k] = kv.Value
	}
	return out, p, true
}

func (e *Engine) tableEntries(pkgPath, varName string) (map[int64]string, bool) {
	var pkg *packages.Package
	for _, p := range e.loaded {
		if p.PkgPath == pkgPath {
			pkg = p
		}
	}
	if pkg == nil {
		return nil, false
	}
	for _, f := range pkg.Syntax {
		for _, d := range f.Decls {
			gd, ok := d.(*ast.GenDecl)
			if !ok {
				continue
			}
			for _, sp := range gd.Specs {
				vs, ok := sp.(*ast.ValueSpec)
				if !ok {
					continue
				}
				for i, n := range vs.Names {
					if n.Name != varName || i >= len(vs.Values) {
						continue
					}
					cl, ok := vs.Values[i].(*ast.CompositeLit)
					if !ok {
						return nil, false
					}
					out := map[int64]string{}
					next := int64(0)
					for _, el := range cl.Elts {
						val := el
						if kv, ok := el.(*ast.KeyValueExpr); ok {
							tv := pkg.TypesInfo.Types[kv.Key]
							if tv.Value == nil {
								return nil, false
							}
							k, exact := constant.Int64Val(constant.ToInt(tv.Value))
							if !exact {
								return nil, false
							}
							next = k
							val = kv.Value
						}
						tv := pkg.TypesInfo.Types[val]
						if tv.Value == nil || tv.Value.Kind() != constant.String {
							return nil, false
						}
						out[next] = constant.StringVal(tv.Value)
						next++
					}
					_ = types.Typ
					return out, true
				}
			}
		}
	}
	return nil, false
}

func (e *Engine) checkTable(tc TableCheck) {
	fx := &FuncExec{eng: e, name: "table:" + tc.Pkg + "." + tc.Var}
	st := &State{fx: fx, declSet: map[string]bool{}, pcSet: map[string]bool{}}
	tf := func(b bool) string {
		if b {
			return "true"
		}
		return "false"
	}
	if tc.Rows != nil {
		rows, ok := e.rowsOf(tc.Pkg, tc.Var)
		if !ok {
			e.unsup[fx.name] = append(e.unsup[fx.name], "nested literal not found or not constant")
			return
		}
		e.funcsDone = append(e.funcsDone, fx.name)
		e.oblige(fx, st, "table", "rowcount", tf(len(rows) == len(tc.Rows)), fmt.Sprintf("%s has %d rows, the documented order of operations has %d", tc.Var, len(rows), len(tc.Rows)), 0)
		for i, want := range tc.Rows {
			var got []string
			if i < len(rows) {
				got = rows[i]
			}
			same := len(got) == len(want)
			if same {
				gs, ws := map[string]bool{}, map[string]bool{}
				for _, x := range got {
					gs[x] = true
				}
				for _, x := range want {
					ws[x] = true
				}
				for x := range ws {
					if !gs[x] {
						same = false
					}
				}
				for x := range gs {
					if !ws[x] {
						same = false
					}
				}
			}
			e.oblige(fx, st, "table", fmt.Sprintf("row[%d]", i), tf(same), fmt.Sprintf("%s row %d is %q, documented precedence level is %q", tc.Var, i, got, want), 0)
		}
		return
	}
	if tc.MapKeyMaxLen > 0 || len(tc.MapKeysContain) > 0 || tc.MapKeysInRows != "" || tc.MapValuesNonNil {
		m, p, ok := e.mapOf(tc.Pkg, tc.Var)
		if !ok {
			e.unsup[fx.name] = append(e.unsup[fx.name], "map literal not found or keys not constant")
			return
		}
		e.funcsDone = append(e.funcsDone, fx.name)
		var rowSet map[string]bool
		if tc.MapKeysInRows != "" {
			rows, ok := e.rowsOf(tc.Pkg, tc.MapKeysInRows)
			if ok {
				rowSet = map[string]bool{}
				for _, r := range rows {
					for _, x := range r {
						rowSet[x] = true
					}
				}
			}
		}
		var keys []string
		for k := range m {
			keys = append(keys, k)
		}
		sort.Strings(keys)
		for _, k := range keys {
			if tc.MapKeyMaxLen > 0 {
				e.oblige(fx, st, "table", fmt.Sprintf("keylen[%q]", k), tf(len(k) >= tc.MapKeyMinLen && len(k) <= tc.MapKeyMaxLen), fmt.Sprintf("key %q of %s must have length %d..%d", k, tc.Var, tc.MapKeyMinLen, tc.MapKeyMaxLen), 0)
			}
			if rowSet != nil {
				e.oblige(fx, st, "table", fmt.Sprintf("key-in-%s[%q]", tc.MapKeysInRows, k), tf(rowSet[k]), fmt.Sprintf("key %q of %s must occur in %s", k, tc.Var, tc.MapKeysInRows), 0)
			}
			if tc.MapValuesNonNil {
				nonNil := true
				if id, ok := m[k].(*ast.Ident); ok && id.Name == "nil" {
					nonNil = false
				}
				_ = p
				e.oblige(fx, st, "table", fmt.Sprintf("value-non-nil[%q]", k), tf(nonNil), fmt.Sprintf("value of key %q of %s must not be nil", k, tc.Var), 0)
			}
		}
		for _, k := range tc.MapKeysContain {
			_, has := m[k]
			e.oblige(fx, st, "table", fmt.Sprintf("has-key[%q]", k), tf(has), fmt.Sprintf("%s must have key %q", tc.Var, k), 0)
		}
		return
	}
	entries, ok := e.tableEntries(tc.Pkg, tc.Var)
	if !ok {
		e.unsup[fx.name] = append(e.unsup[fx.name], "composite literal not found or not constant")
		return
	}
	e.funcsDone = append(e.funcsDone, fx.name)
	for _, r := range tc.NonEmpty {
		for i := r[0]; i <= r[1]; i++ {
			goal := "false"
			if entries[int64(i)] != "" {
				goal = "true"
			}
			e.oblige(fx, st, "table", fmt.Sprintf("nonempty[%d]", i), goal, fmt.Sprintf("%s[%d] must be a non-empty escape (value %q)", tc.Var, i, entries[int64(i)]), 0)
		}
	}
	for k, want := range tc.Expect {
		i, err := strconv.Atoi(k)
		if err != nil {
			continue
		}
		goal := "false"
		if entries[int64(i)] == want {
			goal = "true"
		}
		e.oblige(fx, st, "table", fmt.Sprintf("expect[%d]", i), goal, fmt.Sprintf("%s[%d] must be %q (value %q)", tc.Var, i, want, entries[int64(i)]), 0)
	}
}
