package main

import (
	"fmt"
	"go/ast"
	"go/constant"
	"go/types"
	"strconv"

	"golang.org/x/tools/go/packages"
)

// TableCheck: finite, exhaustive obligations over a package-level composite literal
// (extracted from the typed AST of the current tree; no solver needed: ground facts).
type TableCheck struct {
	Name     string   `json:"name"`
	Pkg      string   `json:"pkg"`
	Var      string   `json:"var"`
	NonEmpty [][2]int `json:"nonempty"` // index ranges (inclusive) whose string entry must be non-empty
	// Expect: index -> exact expected string (e.g. JSON escapes)
	Expect map[string]string `json:"expect"`
}

func (e *Engine) tableEntries(pkgPath, varName string) (map[int64]string, bool) {
	var pkg *packages.Package
	for _, p := range e.loaded {
		if p.PkgPath == pkgPath {
			pkg = p
		}
	}
	if pkg == nil {
		return nil, false
	}
	for _, f := range pkg.Syntax {
		for _, d := range f.Decls {
			gd, ok := d.(*ast.GenDecl)
			if !ok {
				continue
			}
			for _, sp := range gd.Specs {
				vs, ok := sp.(*ast.ValueSpec)
				if !ok {
					continue
				}
				for i, n := range vs.Names {
					if n.Name != varName || i >= len(vs.Values) {
						continue
					}
					cl, ok := vs.Values[i].(*ast.CompositeLit)
					if !ok {
						return nil, false
					}
					out := map[int64]string{}
					next := int64(0)
					for _, el := range cl.Elts {
						val := el
						if kv, ok := el.(*ast.KeyValueExpr); ok {
							tv := pkg.TypesInfo.Types[kv.Key]
							if tv.Value == nil {
								return nil, false
							}
							k, exact := constant.Int64Val(constant.ToInt(tv.Value))
							if !exact {
								return nil, false
							}
							next = k
							val = kv.Value
						}
						tv := pkg.TypesInfo.Types[val]
						if tv.Value == nil || tv.Value.Kind() != constant.String {
							return nil, false
						}
						out[next] = constant.StringVal(tv.Value)
						next++
					}
					_ = types.Typ
					return out, true
				}
			}
		}
	}
	return nil, false
}

func (e *Engine) checkTable(tc TableCheck) {
	fx := &FuncExec{eng: e, name: "table:" + tc.Pkg + "." + tc.Var}
	entries, ok := e.tableEntries(tc.Pkg, tc.Var)
	st := &State{fx: fx, declSet: map[string]bool{}, pcSet: map[string]bool{}}
	if !ok {
		e.unsup[fx.name] = append(e.unsup[fx.name], "composite literal not found or not constant")
		return
	}
	e.funcsDone = append(e.funcsDone, fx.name)
	for _, r := range tc.NonEmpty {
		for i := r[0]; i <= r[1]; i++ {
			goal := "false"
			if entries[int64(i)] != "" {
				goal = "true"
			}
			e.oblige(fx, st, "table", fmt.Sprintf("nonempty[%d]", i), goal, fmt.Sprintf("%s[%d] must be a non-empty escape (value %q)", tc.Var, i, entries[int64(i)]), 0)
		}
	}
	for k, want := range tc.Expect {
		i, err := strconv.Atoi(k)
		if err != nil {
			continue
		}
		goal := "false"
		if entries[int64(i)] == want {
			goal = "true"
		}
		e.oblige(fx, st, "table", fmt.Sprintf("expect[%d]", i), goal, fmt.Sprintf("%s[%d] must be %q (value %q)", tc.Var, i, want, entries[int64(i)]), 0)
	}
}
