package main

import (
	"fmt"
	"go/ast"
	"go/constant"
	"go/token"
	"go/types"
	"golang.org/x/tools/go/ssa/ssautil"
	"os"
	"sort"
	"strconv"
	"strings"

	"golang.org/x/tools/go/packages"
	"golang.org/x/tools/go/ssa"
)

// TableCheck: finite, exhaustive obligations over a package-level composite literal
// (extracted from the typed AST of the current tree; no solver needed: ground facts).
type TableCheck struct {
	Name     string   `json:"name"`
	Pkg      string   `json:"pkg"`
	Var      string   `json:"var"`
	NonEmpty [][2]int `json:"nonempty"` // index ranges (inclusive) whose string entry must be non-empty
	// Expect: index -> exact expected string (e.g. JSON escapes)
	Expect map[string]string `json:"expect"`
	// Rows: the variable is a [][]string-like literal that must equal these rows exactly
	Rows [][]string `json:"rows"`
	// map literal checks (keys are constant strings)
	MapKeyMinLen    int      `json:"map_key_min_len"`
	MapKeyMaxLen    int      `json:"map_key_max_len"`
	MapKeysContain  []string `json:"map_keys_contain"`
	MapKeysInRows   string   `json:"map_keys_in_rows"` // every key must occur in this [][]string variable
	MapValuesNonNil bool     `json:"map_values_non_nil"`
	// every key that is also the name of an exported string constant of this package (e.g. "time")
	// must map to that constant's value (a name table that shadows library constants)
	MapValuesMatchPkgConsts string `json:"map_values_match_pkg_consts"`
	// the variable is initialised by regexp.MustCompile(<constant>): the pattern must match whole
	// strings only (anchored with ^ ... $ after optional flags)
	RegexpWholeMatch bool `json:"regexp_whole_match"`
	// every non-empty entry of a [N]string table indexed by character must be a JSON escape
	// sequence (RFC 8259 section 7) that decodes to exactly its own index
	JSONEscapes bool `json:"json_escapes"`
}

// jsonEscapeDecodes reports whether esc is one JSON escape sequence denoting the character c.
func jsonEscapeDecodes(esc string, c int64) bool {
	if len(esc) == 2 && esc[0] == '\\' {
		short := map[byte]int64{'"': '"', '\\': '\\', '/': '/', 'b': 8, 'f': 12, 'n': 10, 'r': 13, 't': 9}
		v, ok := short[esc[1]]
		return ok && v == c
	}
	if len(esc) == 6 && esc[0] == '\\' && esc[1] == 'u' {
		v, err := strconv.ParseUint(esc[2:], 16, 32)
		return err == nil && int64(v) == c
	}
	return false
}

// literalOf finds the composite literal initialising a package-level variable.
func (e *Engine) literalOf(pkgPath, varName string) (*ast.CompositeLit, *packages.Package) {
	for _, p := range e.loaded {
		if p.PkgPath != pkgPath {
			continue
		}
		for _, f := range p.Syntax {
			for _, d := range f.Decls {
				gd, ok := d.(*ast.GenDecl)
				if !ok {
					continue
				}
				for _, sp := range gd.Specs {
					vs, ok := sp.(*ast.ValueSpec)
					if !ok {
						continue
					}
					for i, n := range vs.Names {
						if n.Name == varName && i < len(vs.Values) {
							if cl, ok := vs.Values[i].(*ast.CompositeLit); ok {
								return cl, p
							}
						}
					}
				}
			}
		}
	}
	return nil, nil
}

func constString(p *packages.Package, e ast.Expr) (string, bool) {
	tv := p.TypesInfo.Types[e]
	if tv.Value == nil || tv.Value.Kind() != constant.String {
		return "", false
	}
	return constant.StringVal(tv.Value), true
}

// rowsOf reads a [][]string-like literal.
func (e *Engine) rowsOf(pkgPath, varName string) ([][]string, bool) {
	cl, p := e.literalOf(pkgPath, varName)
	if cl == nil {
		return nil, false
	}
	var rows [][]string
	for _, el := range cl.Elts {
		inner, ok := el.(*ast.CompositeLit)
		if !ok {
			return nil, false
		}
		var row []string
		for _, x := range inner.Elts {
			s, ok := constString(p, x)
			if !ok {
				return nil, false
			}
			row = append(row, s)
		}
		rows = append(rows, row)
	}
	return rows, true
}

// mapOf reads a map literal with constant string keys; the value expressions are returned as AST.
func (e *Engine) mapOf(pkgPath, varName string) (map[string]ast.Expr, *packages.Package, bool) {
	cl, p := e.literalOf(pkgPath, varName)
	if cl == nil {
		return nil, nil, false
	}
	out := map[string]ast.Expr{}
	for _, el := range cl.Elts {
		kv, ok := el.(*ast.KeyValueExpr)
		if !ok {
			return nil, nil, false
		}
		k, ok := constString(p, kv.Key)
		if !ok {
			return nil, nil, false
		}
		out[k] = kv.Value
	}
	return out, p, true
}

func (e *Engine) tableEntries(pkgPath, varName string) (map[int64]string, bool) {
	var pkg *packages.Package
	for _, p := range e.loaded {
		if p.PkgPath == pkgPath {
			pkg = p
		}
	}
	if pkg == nil {
		return nil, false
	}
	for _, f := range pkg.Syntax {
		for _, d := range f.Decls {
			gd, ok := d.(*ast.GenDecl)
			if !ok {
				continue
			}
			for _, sp := range gd.Specs {
				vs, ok := sp.(*ast.ValueSpec)
				if !ok {
					continue
				}
				for i, n := range vs.Names {
					if n.Name != varName || i >= len(vs.Values) {
						continue
					}
					cl, ok := vs.Values[i].(*ast.CompositeLit)
					if !ok {
						return nil, false
					}
					out := map[int64]string{}
					next := int64(0)
					for _, el := range cl.Elts {
						val := el
						if kv, ok := el.(*ast.KeyValueExpr); ok {
							tv := pkg.TypesInfo.Types[kv.Key]
							if tv.Value == nil {
								return nil, false
							}
							k, exact := constant.Int64Val(constant.ToInt(tv.Value))
							if !exact {
								return nil, false
							}
							next = k
							val = kv.Value
						}
						tv := pkg.TypesInfo.Types[val]
						if tv.Value == nil || tv.Value.Kind() != constant.String {
							return nil, false
						}
						out[next] = constant.StringVal(tv.Value)
						next++
					}
					_ = types.Typ
					return out, true
				}
			}
		}
	}
	return nil, false
}

// initCallArg returns the constant string argument of the call that initialises a package variable.
func (e *Engine) initCallArg(pkgPath, varName string) (string, bool) {
	for _, p := range e.loaded {
		if p.PkgPath != pkgPath {
			continue
		}
		for _, f := range p.Syntax {
			for _, d := range f.Decls {
				gd, ok := d.(*ast.GenDecl)
				if !ok {
					continue
				}
				for _, sp := range gd.Specs {
					vs, ok := sp.(*ast.ValueSpec)
					if !ok {
						continue
					}
					for i, n := range vs.Names {
						if n.Name == varName && i < len(vs.Values) {
							if call, ok := vs.Values[i].(*ast.CallExpr); ok && len(call.Args) >= 1 {
								return constString(p, call.Args[0])
							}
						}
					}
				}
			}
		}
	}
	return "", false
}

func (e *Engine) checkTable(tc TableCheck) {
	fx := &FuncExec{eng: e, name: "table:" + tc.Pkg + "." + tc.Var}
	st := &State{fx: fx, declSet: map[string]bool{}, pcSet: map[string]bool{}}
	tf := func(b bool) string {
		if b {
			return "true"
		}
		return "false"
	}
	if tc.RegexpWholeMatch {
		pat, ok := e.initCallArg(tc.Pkg, tc.Var)
		if !ok {
			e.unsup[fx.name] = append(e.unsup[fx.name], "initialiser is not a call with a constant pattern")
			return
		}
		e.funcsDone = append(e.funcsDone, fx.name)
		body := pat
		for strings.HasPrefix(body, "(?") { // leading flag group such as (?i)
			if i := strings.Index(body, ")"); i > 0 && !strings.Contains(body[:i], ":") {
				body = body[i+1:]
			} else {
				break
			}
		}
		anchored := strings.HasPrefix(body, "^") && strings.HasSuffix(body, "$") && !strings.HasSuffix(body, "\\$") && !strings.Contains(body, "|")
		e.oblige(fx, st, "table", "whole-match", tf(anchored), fmt.Sprintf("pattern %q of %s must be anchored at both ends (it decides whether a whole token is acceptable)", pat, tc.Var), 0)
		return
	}
	if tc.Rows != nil {
		rows, ok := e.rowsOf(tc.Pkg, tc.Var)
		if !ok {
			e.unsup[fx.name] = append(e.unsup[fx.name], "nested literal not found or not constant")
			return
		}
		e.funcsDone = append(e.funcsDone, fx.name)
		e.oblige(fx, st, "table", "rowcount", tf(len(rows) == len(tc.Rows)), fmt.Sprintf("%s has %d rows, the documented order of operations has %d", tc.Var, len(rows), len(tc.Rows)), 0)
		for i, want := range tc.Rows {
			var got []string
			if i < len(rows) {
				got = rows[i]
			}
			same := len(got) == len(want)
			if same {
				gs, ws := map[string]bool{}, map[string]bool{}
				for _, x := range got {
					gs[x] = true
				}
				for _, x := range want {
					ws[x] = true
				}
				for x := range ws {
					if !gs[x] {
						same = false
					}
				}
				for x := range gs {
					if !ws[x] {
						same = false
					}
				}
			}
			e.oblige(fx, st, "table", fmt.Sprintf("row[%d]", i), tf(same), fmt.Sprintf("%s row %d is %q, documented precedence level is %q", tc.Var, i, got, want), 0)
		}
		return
	}
	if tc.MapKeyMaxLen > 0 || len(tc.MapKeysContain) > 0 || tc.MapKeysInRows != "" || tc.MapValuesNonNil || tc.MapValuesMatchPkgConsts != "" {
		m, p, ok := e.mapOf(tc.Pkg, tc.Var)
		if !ok {
			e.unsup[fx.name] = append(e.unsup[fx.name], "map literal not found or keys not constant")
			return
		}
		e.funcsDone = append(e.funcsDone, fx.name)
		var rowSet map[string]bool
		if tc.MapKeysInRows != "" {
			rows, ok := e.rowsOf(tc.Pkg, tc.MapKeysInRows)
			if ok {
				rowSet = map[string]bool{}
				for _, r := range rows {
					for _, x := range r {
						rowSet[x] = true
					}
				}
			}
		}
		var keys []string
		for k := range m {
			keys = append(keys, k)
		}
		sort.Strings(keys)
		for _, k := range keys {
			if tc.MapKeyMaxLen > 0 {
				e.oblige(fx, st, "table", fmt.Sprintf("keylen[%q]", k), tf(len(k) >= tc.MapKeyMinLen && len(k) <= tc.MapKeyMaxLen), fmt.Sprintf("key %q of %s must have length %d..%d", k, tc.Var, tc.MapKeyMinLen, tc.MapKeyMaxLen), 0)
			}
			if rowSet != nil {
				e.oblige(fx, st, "table", fmt.Sprintf("key-in-%s[%q]", tc.MapKeysInRows, k), tf(rowSet[k]), fmt.Sprintf("key %q of %s must occur in %s", k, tc.Var, tc.MapKeysInRows), 0)
			}
			if tc.MapValuesMatchPkgConsts != "" && p != nil {
				// the library constant of the same name, if there is one
				for _, imp := range p.Types.Imports() {
					if imp.Path() != tc.MapValuesMatchPkgConsts {
						continue
					}
					if obj, ok := imp.Scope().Lookup(k).(*types.Const); ok && obj.Exported() && obj.Val().Kind() == constant.String {
						want := constant.StringVal(obj.Val())
						got, isConst := constString(p, m[k])
						e.oblige(fx, st, "table", fmt.Sprintf("matches-%s.%s", imp.Name(), k), tf(isConst && got == want),
							fmt.Sprintf("%s[%q] must be %s.%s (%q), found %q", tc.Var, k, imp.Name(), k, want, got), 0)
					}
				}
			}
			if tc.MapValuesNonNil {
				nonNil := true
				if id, ok := m[k].(*ast.Ident); ok && id.Name == "nil" {
					nonNil = false
				}
				_ = p
				e.oblige(fx, st, "table", fmt.Sprintf("value-non-nil[%q]", k), tf(nonNil), fmt.Sprintf("value of key %q of %s must not be nil", k, tc.Var), 0)
			}
		}
		for _, k := range tc.MapKeysContain {
			_, has := m[k]
			e.oblige(fx, st, "table", fmt.Sprintf("has-key[%q]", k), tf(has), fmt.Sprintf("%s must have key %q", tc.Var, k), 0)
		}
		return
	}
	entries, ok := e.tableEntries(tc.Pkg, tc.Var)
	if !ok {
		e.unsup[fx.name] = append(e.unsup[fx.name], "composite literal not found or not constant")
		return
	}
	e.funcsDone = append(e.funcsDone, fx.name)
	for _, r := range tc.NonEmpty {
		for i := r[0]; i <= r[1]; i++ {
			goal := "false"
			if entries[int64(i)] != "" {
				goal = "true"
			}
			e.oblige(fx, st, "table", fmt.Sprintf("nonempty[%d]", i), goal, fmt.Sprintf("%s[%d] must be a non-empty escape (value %q)", tc.Var, i, entries[int64(i)]), 0)
		}
	}
	if tc.JSONEscapes {
		var idx []int64
		for i := range entries {
			idx = append(idx, i)
		}
		sort.Slice(idx, func(a, b int) bool { return idx[a] < idx[b] })
		for _, i := range idx {
			if entries[i] == "" {
				continue
			}
			e.oblige(fx, st, "table", fmt.Sprintf("json-escape[%d]", i), tf(jsonEscapeDecodes(entries[i], i)), fmt.Sprintf("%s[%d] = %q must be a JSON escape sequence that denotes character %d", tc.Var, i, entries[i], i), 0)
		}
	}
	for k, want := range tc.Expect {
		i, err := strconv.Atoi(k)
		if err != nil {
			continue
		}
		goal := "false"
		if entries[int64(i)] == want {
			goal = "true"
		}
		e.oblige(fx, st, "table", fmt.Sprintf("expect[%d]", i), goal, fmt.Sprintf("%s[%d] must be %q (value %q)", tc.Var, i, want, entries[int64(i)]), 0)
	}
}

// checkGlobalInvMapsReadOnly: the invariants declared over package-level maps (globalinv) are
// established by the initialiser (table obligations) and are assumed everywhere afterwards, also
// after calls into unknown code. That is justified only if nothing but package initialisation
// ever updates those maps: one ground obligation per map named in a globalinv.
func (e *Engine) checkGlobalInvMapsReadOnly() {
	var pkgs []string
	for p := range e.cs.GlobalInv {
		pkgs = append(pkgs, p)
	}
	sort.Strings(pkgs)
	for _, pkgPath := range pkgs {
		sp := e.pkgs[pkgPath]
		if sp == nil {
			continue
		}
		names := map[string]bool{}
		for _, c := range e.cs.GlobalInv[pkgPath] {
			var walk func(x *Expr)
			walk = func(x *Expr) {
				if x == nil {
					return
				}
				if x.Op == "id" || x.Op == "ident" || x.Op == "name" {
					names[x.Name] = true
				}
				if x.Name != "" {
					names[x.Name] = true
				}
				for _, a := range x.Args {
					walk(a)
				}
			}
			walk(c.E)
		}
		var gl []*ssa.Global
		for n := range names {
			if g, ok := sp.Members[n].(*ssa.Global); ok {
				if _, isMap := g.Type().(*types.Pointer).Elem().Underlying().(*types.Map); isMap {
					gl = append(gl, g)
				}
			}
		}
		sort.Slice(gl, func(i, j int) bool { return gl[i].Name() < gl[j].Name() })
		for _, g := range gl {
			var writers []string
			for fn := range ssautil.AllFunctions(e.prog) {
				if fn.Pkg == nil || (fn.Name() == "init" && fn.Synthetic != "") {
					continue
				}
				for _, b := range fn.Blocks {
					for _, ins := range b.Instrs {
						var m ssa.Value
						switch u := ins.(type) {
						case *ssa.MapUpdate:
							m = u.Map
						case *ssa.Call:
							if bi, ok := u.Call.Value.(*ssa.Builtin); ok && (bi.Name() == "delete" || bi.Name() == "clear") && len(u.Call.Args) > 0 {
								m = u.Call.Args[0]
							}
						case *ssa.Store:
							if u.Addr == ssa.Value(g) {
								writers = append(writers, funcFullName(fn)+" (reassigns the variable)")
							}
						}
						if ld, ok := m.(*ssa.UnOp); ok && ld.X == ssa.Value(g) {
							writers = append(writers, funcFullName(fn))
						}
					}
				}
			}
			sort.Strings(writers)
			fx := &FuncExec{eng: e, name: "table:" + pkgPath + "." + g.Name(), modKeys: map[string]bool{}, havocGens: map[string]bool{}}
			st := &State{fx: fx, declSet: map[string]bool{}, pcSet: map[string]bool{}, ghostV: map[string]Value{}}
			st.heap = &HeapView{m: map[string]string{}, base: "0"}
			st.old = st.heap
			goal := "true"
			if len(writers) > 0 {
				goal = "false"
			}
			e.oblige(fx, st, "table", "written-by-init-only", goal, fmt.Sprintf("map %s (subject of a globalinv) is updated outside package initialisation by %v", g.Name(), writers), g.Pos())
		}
	}
}

// checkPooledInit: an object taken from an ObjectPool carries whatever its previous user left in
// it (or zero values). Every use of the pointer returned by (*ObjectPool).Get - other than
// handing it back with Return - must therefore be dominated by a re-initialisation through it:
// a store of a whole new struct value, or stores to every field. The pointer is followed through
// the local variable cell it is kept in (a variable captured by a nested closure); the closure's
// creation counts as a use. Ground obligations (class "owned") over the SSA def-use chains.
func (e *Engine) checkPooledInit(fn *ssa.Function) {
	name := funcFullName(fn)
	fx := &FuncExec{eng: e, fn: fn, name: name, modKeys: map[string]bool{}, havocGens: map[string]bool{}}
	mkState := func() *State {
		st := &State{fx: fx, declSet: map[string]bool{}, pcSet: map[string]bool{}, ghostV: map[string]Value{}}
		st.heap = &HeapView{m: map[string]string{}, base: "0"}
		st.old = st.heap
		return st
	}
	isPoolMethod := func(c *ssa.CallCommon, method string) bool {
		f, ok := c.Value.(*ssa.Function)
		if !ok {
			return false
		}
		o := f
		if f.Origin() != nil {
			o = f.Origin()
		}
		if o.Pkg == nil || o.Pkg.Pkg.Path() != "rare/pkg/slicepool" || !strings.Contains(o.RelString(o.Pkg.Pkg), "ObjectPool") {
			return false
		}
		return o.Name() == method
	}
	for _, b := range fn.Blocks {
		for _, ins := range b.Instrs {
			call, ok := ins.(*ssa.Call)
			if !ok || !isPoolMethod(call.Common(), "Get") || call.Referrers() == nil {
				continue
			}
			// the pointer and its copies read back from the variable cell it is stored in
			aliases := map[ssa.Value]bool{call: true}
			cells := map[*ssa.Alloc]bool{}
			for _, r := range *call.Referrers() {
				if s, ok := r.(*ssa.Store); ok && s.Val == ssa.Value(call) {
					if a, ok := s.Addr.(*ssa.Alloc); ok && a.Referrers() != nil {
						cells[a] = true
						for _, ar := range *a.Referrers() {
							if ld, ok := ar.(*ssa.UnOp); ok && ld.Op == token.MUL && ld.X == ssa.Value(a) {
								aliases[ld] = true
							}
						}
					}
				}
			}
			nFields := -1
			var inits []*ssa.Store
			fieldInit := map[int][]*ssa.Store{}
			if pt, ok := call.Type().Underlying().(*types.Pointer); ok {
				if stt, ok := pt.Elem().Underlying().(*types.Struct); ok {
					nFields = stt.NumFields()
					// a field that only the pool's allocator ever writes is the same in every object of
					// the pool: it needs no re-initialisation
					writers := e.fieldWritersOf(typeKey(pt.Elem()))
					allocs := e.poolAllocators()
					for i := 0; i < stt.NumFields(); i++ {
						ws := writers[typeKey(pt.Elem())+"."+stt.Field(i).Name()]
						only := len(ws) > 0
						for w := range ws {
							if !allocs[w] {
								only = false
							}
						}
						if only {
							fieldInit[i] = nil
							nFields--
						}
					}
				}
			}
			allocOnly := map[int]bool{}
			for i := range fieldInit {
				allocOnly[i] = true
			}
			for i := range allocOnly {
				delete(fieldInit, i)
			}
			initAddr := map[ssa.Instruction]bool{}
			type use struct{ ins ssa.Instruction }
			var uses []ssa.Instruction
			for v := range aliases {
				if v.Referrers() == nil {
					continue
				}
				for _, r := range *v.Referrers() {
					switch u := r.(type) {
					case *ssa.DebugRef:
						continue
					case *ssa.Store:
						if u.Addr == v {
							inits = append(inits, u)
							continue
						}
						if a, ok := u.Addr.(*ssa.Alloc); ok && cells[a] && u.Val == v {
							continue // keeping the pointer in its variable
						}
					case ssa.CallInstruction:
						if isPoolMethod(u.Common(), "Return") {
							continue
						}
					case *ssa.FieldAddr:
						if u.X == v && u.Referrers() != nil {
							onlyStores := true
							var sts []*ssa.Store
							for _, fr := range *u.Referrers() {
								switch q := fr.(type) {
								case *ssa.DebugRef:
								case *ssa.Store:
									if q.Addr == ssa.Value(u) {
										sts = append(sts, q)
									} else {
										onlyStores = false
									}
								default:
									onlyStores = false
								}
							}
							if onlyStores && len(sts) > 0 {
								fieldInit[u.Field] = append(fieldInit[u.Field], sts...)
								initAddr[u] = true
								continue
							}
						}
					}
					uses = append(uses, r)
				}
			}
			for a := range cells {
				for _, ar := range *a.Referrers() {
					if mc, ok := ar.(*ssa.MakeClosure); ok {
						uses = append(uses, mc) // the closure will use the pooled object whenever it runs
					}
				}
			}
			before := func(s *ssa.Store, u ssa.Instruction) bool {
				if s.Block() == u.Block() {
					return instrIndex(s) < instrIndex(u)
				}
				return s.Block().Dominates(u.Block())
			}
			dominated := func(u ssa.Instruction) bool {
				if nFields > 0 && len(fieldInit) == nFields {
					all := true
					for _, sts := range fieldInit {
						some := false
						for _, s := range sts {
							if before(s, u) {
								some = true
							}
						}
						if !some {
							all = false
						}
					}
					if all {
						return true
					}
				}
				for _, s := range inits {
					if before(s, u) {
						return true
					}
				}
				return false
			}
			// handing the object back (other than by defer, which runs at function exit) ends the
			// ownership: no use may follow it
			var released []*ssa.Call
			for v := range aliases {
				if v.Referrers() == nil {
					continue
				}
				for _, r := range *v.Referrers() {
					if c, ok := r.(*ssa.Call); ok && isPoolMethod(c.Common(), "Return") {
						released = append(released, c)
					}
				}
			}
			afterRelease := func(u ssa.Instruction) bool {
				for _, c := range released {
					if c.Block() == u.Block() {
						if instrIndex(c) < instrIndex(u) {
							return true
						}
					} else if c.Block().Dominates(u.Block()) {
						return true
					}
				}
				return false
			}
			sort.Slice(uses, func(i, j int) bool {
				if uses[i].Block().Index != uses[j].Block().Index {
					return uses[i].Block().Index < uses[j].Block().Index
				}
				return instrIndex(uses[i]) < instrIndex(uses[j])
			})
			for k, r := range uses {
				if os.Getenv("VERIF_DEBUG") != "" {
					fmt.Fprintf(os.Stderr, "pooled use in %s: %T %v dominated=%v inits=%d\n", name, r, r, dominated(r), len(inits))
				}
				txt, _ := e.srcLine(r.Pos())
				goal := "false"
				if dominated(r) {
					goal = "true"
				}
				e.oblige(fx, mkState(), "owned", fmt.Sprintf("pooled-object-initialised:%s#%d", strings.TrimSpace(txt), k+1), goal,
					"object from ObjectPool.Get used before it is re-initialised (it still holds its previous user's fields)", r.Pos())
				goal = "true"
				if afterRelease(r) {
					goal = "false"
				}
				e.oblige(fx, mkState(), "owned", fmt.Sprintf("pooled-object-still-owned:%s#%d", strings.TrimSpace(txt), k+1), goal,
					"object used after it was handed back to the pool with Return (another evaluation may already own it)", r.Pos())
			}
		}
	}
}

// poolAllocators: the functions handed to NewObjectPoolEx as allocator.
func (e *Engine) poolAllocators() map[*ssa.Function]bool {
	e.mu.Lock()
	defer e.mu.Unlock()
	if e.poolAllocs != nil {
		return e.poolAllocs
	}
	e.poolAllocs = map[*ssa.Function]bool{}
	for fn := range ssautil.AllFunctions(e.prog) {
		for _, b := range fn.Blocks {
			for _, ins := range b.Instrs {
				c, ok := ins.(ssa.CallInstruction)
				if !ok {
					continue
				}
				f, ok := c.Common().Value.(*ssa.Function)
				if !ok {
					continue
				}
				o := f
				if f.Origin() != nil {
					o = f.Origin()
				}
				if o.Pkg == nil || o.Pkg.Pkg.Path() != "rare/pkg/slicepool" || o.Name() != "NewObjectPoolEx" || len(c.Common().Args) < 2 {
					continue
				}
				switch a := c.Common().Args[1].(type) {
				case *ssa.MakeClosure:
					e.poolAllocs[a.Fn.(*ssa.Function)] = true
				case *ssa.Function:
					e.poolAllocs[a] = true
				}
			}
		}
	}
	return e.poolAllocs
}

// checkStagePurity: the optimiser evaluates a stage once against a probe context and folds it
// into a constant if the stage made no lookup. That is only sound if everything a stage's value
// depends on, other than its captured (immutable) variables, is reached through the context. A
// stage (a function taking a KeyBuilderContext and returning a string) that reads the clock, the
// environment, a random source or a package-level variable written outside initialisation must
// therefore perform a context lookup whenever it does so: the lookup dominates the impure read or
// lies in the entry block. Ground obligations of class "purity".
var impureCallees = map[string]bool{"time.Now": true, "time.Since": true, "time.Until": true, "os.Getenv": true, "os.LookupEnv": true, "os.Hostname": true,
	"os.Getpid": true, "os.Getwd": true, "math/rand.Int": true, "math/rand.Intn": true, "math/rand.Float64": true, "math/rand.Int63": true, "os.ReadFile": true, "os.Open": true, "os.Stat": true}

func (e *Engine) checkStagePurity(fn *ssa.Function) {
	sig := fn.Signature
	if sig.Params().Len() != 1 || sig.Results().Len() != 1 || sig.Recv() != nil {
		return
	}
	if fullTypeName(sig.Params().At(0).Type()) != "rare/pkg/expressions.KeyBuilderContext" || kindOf(sig.Results().At(0).Type()) != VStr {
		return
	}
	if len(fn.Params) != 1 || len(fn.Blocks) == 0 {
		return
	}
	ctx := fn.Params[0]
	// context lookups
	var touches []ssa.Instruction
	var impure []ssa.Instruction
	what := map[ssa.Instruction]string{}
	mutable := e.mutableGlobals()
	for _, b := range fn.Blocks {
		for _, ins := range b.Instrs {
			switch u := ins.(type) {
			case ssa.CallInstruction:
				c := u.Common()
				if c.IsInvoke() && c.Value == ssa.Value(ctx) {
					touches = append(touches, ins)
				}
				if f, ok := c.Value.(*ssa.Function); ok {
					if n := funcFullName(f); impureCallees[n] {
						impure = append(impure, ins)
						what[ins] = "call of " + n
					}
				}
			case *ssa.UnOp:
				if g, ok := u.X.(*ssa.Global); ok && u.Op == token.MUL && mutable[g] {
					impure = append(impure, ins)
					what[ins] = "read of package variable " + g.Name() + " (written outside initialisation)"
				}
			}
		}
	}
	if len(impure) == 0 {
		return
	}
	name := funcFullName(fn)
	fx := &FuncExec{eng: e, fn: fn, name: name, modKeys: map[string]bool{}, havocGens: map[string]bool{}}
	for k, im := range impure {
		ok := false
		for _, t := range touches {
			if t.Block() == fn.Blocks[0] || t.Block().Dominates(im.Block()) && (t.Block() != im.Block() || instrIndex(t) < instrIndex(im)) {
				ok = true
			}
		}
		st := &State{fx: fx, declSet: map[string]bool{}, pcSet: map[string]bool{}, ghostV: map[string]Value{}}
		st.heap = &HeapView{m: map[string]string{}, base: "0"}
		st.old = st.heap
		goal := "false"
		if ok {
			goal = "true"
		}
		txt, _ := e.srcLine(im.Pos())
		e.oblige(fx, st, "purity", fmt.Sprintf("context-touched:%s#%d", strings.TrimSpace(txt), k+1), goal,
			"a stage whose value depends on "+what[im]+" must look at the context on that path (else the optimiser freezes it at compile time)", im.Pos())
	}
}

// mutableGlobals: package-level variables of the module stored to outside package initialisation.
func (e *Engine) mutableGlobals() map[*ssa.Global]bool {
	e.mu.Lock()
	defer e.mu.Unlock()
	if e.mutGlobals != nil {
		return e.mutGlobals
	}
	e.mutGlobals = map[*ssa.Global]bool{}
	for fn := range ssautil.AllFunctions(e.prog) {
		if fn.Pkg == nil || (fn.Name() == "init" && fn.Synthetic != "") {
			continue
		}
		if p := fn.Pkg.Pkg.Path(); !(strings.HasPrefix(p, "rare/") || p == "rare") {
			continue
		}
		for _, b := range fn.Blocks {
			for _, ins := range b.Instrs {
				if s, ok := ins.(*ssa.Store); ok {
					if g, ok := s.Addr.(*ssa.Global); ok {
						e.mutGlobals[g] = true
					}
				}
			}
		}
	}
	return e.mutGlobals
}

// checkMapOrderIndependence: Go randomises map iteration order. A function that appends text to
// a builder (strings.Builder, a JSON object builder) from inside a loop that ranges over a map
// produces text that depends on that order: the same data renders differently from one call to
// the next. Ground obligation of class "order" per map-range loop.
func (e *Engine) checkMapOrderIndependence(fn *ssa.Function) {
	if len(fn.Blocks) == 0 {
		return
	}
	name := funcFullName(fn)
	fx := &FuncExec{eng: e, fn: fn, name: name, modKeys: map[string]bool{}, havocGens: map[string]bool{}}
	fx.findLoops()
	k := 0
	for _, b := range fn.Blocks {
		for _, ins := range b.Instrs {
			rng, ok := ins.(*ssa.Range)
			if !ok {
				continue
			}
			if _, isMap := rng.X.Type().Underlying().(*types.Map); !isMap || rng.Referrers() == nil {
				continue
			}
			// the loop whose header holds the Next of this iterator
			var hdr *ssa.BasicBlock
			for _, r := range *rng.Referrers() {
				if nx, ok := r.(*ssa.Next); ok {
					hdr = nx.Block()
				}
			}
			body := fx.loopBody[hdr]
			if hdr == nil || body == nil {
				continue
			}
			var writers []string
			for bb := range body {
				for _, in := range bb.Instrs {
					c, ok := in.(ssa.CallInstruction)
					if !ok {
						continue
					}
					f, ok := c.Common().Value.(*ssa.Function)
					if !ok || f.Signature.Recv() == nil {
						continue
					}
					rt := fullTypeName(f.Signature.Recv().Type())
					if strings.HasPrefix(f.Name(), "Write") && (strings.HasSuffix(rt, "strings.Builder") || strings.HasSuffix(rt, "JsonObjectBuilder") || strings.HasSuffix(rt, "bytes.Buffer")) {
						txt, _ := e.srcLine(in.Pos())
						writers = append(writers, strings.TrimSpace(txt))
					}
				}
			}
			sort.Strings(writers)
			k++
			st := &State{fx: fx, declSet: map[string]bool{}, pcSet: map[string]bool{}, ghostV: map[string]Value{}}
			st.heap = &HeapView{m: map[string]string{}, base: "0"}
			st.old = st.heap
			goal := "true"
			if len(writers) > 0 {
				goal = "false"
			}
			txt, _ := e.srcLine(rng.Pos())
			e.oblige(fx, st, "order", fmt.Sprintf("map-range-order-independent:%s#%d", strings.TrimSpace(txt), k), goal,
				fmt.Sprintf("text is written inside a loop over a map (%v): the result depends on Go's random map iteration order", writers), rng.Pos())
		}
	}
	if k == 0 {
		return
	}
	// the keys collected from the map are put into an order before they are written. That order
	// must not depend on the order of collection: a sort by the key strings themselves
	// (sort.Strings / slices.Sort) is total; a sort with a comparator is total only if ties
	// between different keys are impossible, i.e. the comparator also compares the raw elements
	// (a comparator over a normalised form alone - lower-cased, truncated, by length - leaves
	// keys that normalise alike in collection order, which is the map's random order).
	sorts := 0
	n := 0
	for _, b := range fn.Blocks {
		for _, ins := range b.Instrs {
			c, ok := ins.(ssa.CallInstruction)
			if !ok {
				continue
			}
			f, ok := c.Common().Value.(*ssa.Function)
			if !ok || f.Pkg == nil {
				continue
			}
			full := f.Pkg.Pkg.Path() + "." + f.Name()
			if i := strings.Index(full, "["); i >= 0 {
				full = full[:i]
			}
			switch full {
			case "sort.Strings", "slices.Sort":
				sorts++
			case "sort.Slice", "sort.SliceStable", "slices.SortFunc", "slices.SortStableFunc":
				sorts++
				n++
				var cmp *ssa.Function
				for _, a := range c.Common().Args {
					switch v := a.(type) {
					case *ssa.MakeClosure:
						cmp, _ = v.Fn.(*ssa.Function)
					case *ssa.Function:
						cmp = v
					}
				}
				st := &State{fx: fx, declSet: map[string]bool{}, pcSet: map[string]bool{}, ghostV: map[string]Value{}}
				st.heap = &HeapView{m: map[string]string{}, base: "0"}
				st.old = st.heap
				txt, _ := e.srcLine(ins.Pos())
				e.oblige(fx, st, "order", fmt.Sprintf("sort-of-map-keys-total:%s#%d", strings.TrimSpace(txt), n), tf(cmp != nil && comparesRawElements(cmp)),
					"the comparator that orders keys collected from a map never compares the keys themselves: keys it treats as equal stay in Go's random map iteration order", ins.Pos())
			}
		}
	}
	st := &State{fx: fx, declSet: map[string]bool{}, pcSet: map[string]bool{}, ghostV: map[string]Value{}}
	st.heap = &HeapView{m: map[string]string{}, base: "0"}
	st.old = st.heap
	e.oblige(fx, st, "order", "map-keys-sorted-before-use", tf(sorts > 0), "keys are collected from a map but never sorted: their order is Go's random map iteration order", fn.Pos())
}

// checkFlagConfined: in function fn the configuration field `field` may be read for one purpose
// only - to decide whether `callee` is applied to the finished result. Every read of the field
// must feed nothing but the condition of a branch whose taken side calls callee. (C10: the
// optimiser is proved value-preserving; switching it on must not change anything else about how
// a template is compiled.) One ground obligation of class "flag" per read.
func (e *Engine) checkFlagConfined(fn *ssa.Function, field, callee string) {
	if len(fn.Blocks) == 0 {
		return
	}
	name := funcFullName(fn)
	fx := &FuncExec{eng: e, fn: fn, name: name, modKeys: map[string]bool{}, havocGens: map[string]bool{}}
	k := 0
	callsCallee := func(b *ssa.BasicBlock) bool {
		for _, in := range b.Instrs {
			if c, ok := in.(ssa.CallInstruction); ok {
				if f := c.Common().StaticCallee(); f != nil && f.Name() == callee {
					return true
				}
			}
		}
		return false
	}
	for _, b := range fn.Blocks {
		for _, ins := range b.Instrs {
			fa, ok := ins.(*ssa.FieldAddr)
			if !ok {
				continue
			}
			st, ok := fa.X.Type().Underlying().(*types.Pointer)
			if !ok {
				continue
			}
			str, ok := st.Elem().Underlying().(*types.Struct)
			if !ok || fa.Field >= str.NumFields() || str.Field(fa.Field).Name() != field {
				continue
			}
			k++
			okUse := fa.Referrers() != nil
			if okUse {
				for _, r := range *fa.Referrers() {
					ld, isLoad := r.(*ssa.UnOp)
					if _, isDbg := r.(*ssa.DebugRef); isDbg {
						continue
					}
					if !isLoad || ld.Op != token.MUL || ld.Referrers() == nil {
						okUse = false
						break
					}
					for _, u := range *ld.Referrers() {
						if _, isDbg := u.(*ssa.DebugRef); isDbg {
							continue
						}
						iff, isIf := u.(*ssa.If)
						if !isIf || len(iff.Block().Succs) != 2 || !callsCallee(iff.Block().Succs[0]) {
							okUse = false
						}
					}
				}
			}
			s0 := &State{fx: fx, declSet: map[string]bool{}, pcSet: map[string]bool{}, ghostV: map[string]Value{}}
			s0.heap = &HeapView{m: map[string]string{}, base: "0"}
			s0.old = s0.heap
			txt, _ := e.srcLine(ins.Pos())
			e.oblige(fx, s0, "flag", fmt.Sprintf("%s-only-guards-%s:%s#%d", field, callee, strings.TrimSpace(txt), k), tf(okUse),
				fmt.Sprintf("the field %s is read for something other than deciding whether %s is applied to the finished result", field, callee), ins.Pos())
		}
	}
}

func tf(b bool) string {
	if b {
		return "true"
	}
	return "false"
}

// comparesRawElements: the comparator contains an ordering comparison whose two operands are both
// loaded straight from elements of a slice (names[i] < names[j]) or are its own string parameters.
func comparesRawElements(cmp *ssa.Function) bool {
	raw := func(v ssa.Value) bool {
		switch x := v.(type) {
		case *ssa.Parameter:
			return true
		case *ssa.UnOp:
			if x.Op == token.MUL {
				_, ok := x.X.(*ssa.IndexAddr)
				return ok
			}
		case *ssa.Index:
			return true
		}
		return false
	}
	for _, b := range cmp.Blocks {
		for _, ins := range b.Instrs {
			switch x := ins.(type) {
			case *ssa.BinOp:
				if (x.Op == token.LSS || x.Op == token.GTR || x.Op == token.LEQ || x.Op == token.GEQ) && raw(x.X) && raw(x.Y) {
					return true
				}
			case *ssa.Call:
				if f, ok := x.Call.Value.(*ssa.Function); ok && f.Pkg != nil && (f.Pkg.Pkg.Path() == "strings" || f.Pkg.Pkg.Path() == "cmp") && f.Name() == "Compare" && len(x.Call.Args) == 2 && raw(x.Call.Args[0]) && raw(x.Call.Args[1]) {
					return true
				}
			}
		}
	}
	return false
}
