package main

import (
	"fmt"
	"go/constant"
	"go/token"
	"go/types"
	"math/big"
	"strings"

	"golang.org/x/tools/go/ssa"
)

// strLit returns the Str constant for a literal and asserts its ground facts.
func (st *State) strLit(s string) Value {
	if s == "" {
		return Value{K: VStr, T: "str_empty", Ty: types.Typ[types.String]}
	}
	eng := st.fx.eng
	eng.mu.Lock()
	name, ok := eng.strLits[s]
	if !ok {
		name = sym(fmt.Sprintf("lit:%d:%s", len(eng.strLits), litHint(s)))
		eng.strLits[s] = name
	}
	eng.mu.Unlock()
	if !st.declSet[name] {
		st.declare(name, "Str")
		st.assume(fmt.Sprintf("(= (slen %s) %d)", name, len(s)))
		if len(s) <= 64 {
			var facts []string
			for i := 0; i < len(s); i++ {
				facts = append(facts, fmt.Sprintf("(= (sat %s %d) %d)", name, i, s[i]))
			}
			st.assume(and(facts...))
		}
		if len(s) == 1 && s[0] < 128 {
			// a one-character literal is the string of that rune / byte (WriteRune, WriteByte)
			st.assume(fmt.Sprintf("(and (= %s (str_of_rune %d)) (= %s (str_of_byte %d)))", name, s[0], name, s[0]))
		}
	}
	return Value{K: VStr, T: name, Ty: types.Typ[types.String]}
}

func litHint(s string) string {
	var sb strings.Builder
	for _, r := range s {
		if (r >= 'a' && r <= 'z') || (r >= 'A' && r <= 'Z') || (r >= '0' && r <= '9') || r == '_' || r == '-' || r == '<' || r == '>' {
			sb.WriteRune(r)
		} else {
			sb.WriteByte('.')
		}
		if sb.Len() >= 16 {
			break
		}
	}
	return sb.String()
}

func (x *Exec) constVal(st *State, c *ssa.Const) Value {
	t := c.Type()
	k := kindOf(t)
	if c.Value == nil {
		return st.zero(t)
	}
	switch k {
	case VBool:
		if constant.BoolVal(c.Value) {
			return Value{K: VBool, T: "true", Ty: t}
		}
		return Value{K: VBool, T: "false", Ty: t}
	case VInt:
		v := constant.ToInt(c.Value)
		b, ok := new(big.Int).SetString(v.ExactString(), 10)
		if !ok {
			st.unsupported("integer constant " + v.ExactString())
		}
		return Value{K: VInt, T: smtInt(b), Ty: t}
	case VReal:
		v := constant.ToFloat(c.Value)
		r, ok := new(big.Rat).SetString(v.ExactString())
		if !ok {
			f, _ := constant.Float64Val(v)
			r = new(big.Rat).SetFloat64(f)
			if r == nil {
				st.unsupported("float constant")
			}
		}
		num, den := r.Num(), r.Denom()
		s := "(/ " + new(big.Int).Abs(num).String() + ".0 " + den.String() + ".0)"
		if num.Sign() < 0 {
			s = "(- " + s + ")"
		}
		return Value{K: VReal, T: s, Ty: t}
	case VStr:
		return st.strLit(constant.StringVal(c.Value))
	}
	st.unsupported("constant of kind " + k.String())
	return Value{}
}

// get returns the symbolic value of an SSA value in the current state.
func (x *Exec) get(st *State, v ssa.Value) Value {
	switch v := v.(type) {
	case *ssa.Const:
		return x.constVal(st, v)
	case *ssa.Global:
		pt := v.Type().(*types.Pointer).Elem()
		return Value{K: VAddr, A: &Addr{Root: "0", Key: "global:" + typeKeyPkg(v.Pkg.Pkg) + "." + v.Name(), Ty: pt}, Ty: v.Type()}
	case *ssa.Function:
		id := x.funcID(st, v)
		return Value{K: VFunc, T: id, Ty: v.Type(), Clo: &Closure{Fn: v}}
	case *ssa.Builtin:
		return Value{K: VFunc, T: "0", Ty: v.Type()}
	}
	if val, ok := st.env[v]; ok {
		return val
	}
	// value defined before a cut point: rematerialise
	return x.remat(st, v)
}

func typeKeyPkg(p *types.Package) string {
	return strings.TrimPrefix(p.Path(), "rare/")
}

func (x *Exec) funcID(st *State, f *ssa.Function) string {
	name := sym("fn:" + funcFullName(f))
	if !st.declSet[name] {
		st.declare(name, "Int")
		st.assume(fmt.Sprintf("(and (> %s 0) (< %s |brk0|))", name, name))
	}
	return name
}

func (x *Exec) remat(st *State, v ssa.Value) Value {
	if st.cutFrom == nil && st.depth == 0 {
		panic(fmt.Sprintf("internal: value %s (%T) undefined in %s", v.Name(), v, x.fx.name))
	}
	switch ins := v.(type) {
	case *ssa.Alloc:
		name := sym("al:" + ins.Name() + ":" + ins.Comment)
		st.declare(name, "Int")
		st.assume(fmt.Sprintf("(and (>= %s |brk0|) (< %s %s) (> %s 0))", name, name, st.brk, name))
		for _, o := range st.remat {
			st.assume(fmt.Sprintf("(not (= %s %s))", name, o))
		}
		st.remat = append(st.remat, name)
		val := Value{K: VRef, T: name, Ty: ins.Type()}
		st.env[v] = val
		if constCell(ins) {
			st.markConst(name)
		}
		return val
	case *ssa.FieldAddr, *ssa.IndexAddr, *ssa.BinOp, *ssa.Convert, *ssa.ChangeType, *ssa.Slice, *ssa.Field, *ssa.Extract, *ssa.MakeInterface, *ssa.ChangeInterface, *ssa.Lookup, *ssa.Index:
		if b, ok := ins.(*ssa.BinOp); ok && (b.Op == token.QUO || b.Op == token.REM) {
			break
		}
		if l, ok := ins.(*ssa.Lookup); ok && kindOf(l.X.Type()) != VStr {
			break // map lookups read the heap
		}
		if e, ok := ins.(*ssa.Extract); ok {
			// tuple source is impure: name the component
			_ = e
			break
		}
		quiet := st.fx.eng.quiet(st)
		defer quiet()
		res := x.step(st, x.fx.fn, ins.(ssa.Instruction), true)
		if len(res) == 1 {
			return st.env[v]
		}
	case *ssa.UnOp:
		if ins.Op == token.MUL {
			if al, ok := ins.X.(*ssa.Alloc); ok && constCell(al) {
				// an immutable cell (spilled, never reassigned parameter) still holds its value
				quiet := st.fx.eng.quiet(st)
				defer quiet()
				x.step(st, x.fx.fn, ins, true)
				return st.env[v]
			}
			// a load whose location is never written in this function still has its value
			if k := staticKey(ins.X); k != "?" && !x.fx.touches(k) && !x.fx.modAll {
				if _, isAlloc := ins.X.(*ssa.Alloc); !isAlloc {
					quiet := st.fx.eng.quiet(st)
					defer quiet()
					x.step(st, x.fx.fn, ins, true)
					return st.env[v]
				}
			}
		}
		if ins.Op == token.SUB || ins.Op == token.NOT || ins.Op == token.XOR {
			quiet := st.fx.eng.quiet(st)
			defer quiet()
			x.step(st, x.fx.fn, ins, true)
			return st.env[v]
		}
	case *ssa.Range:
		// an iterator created before the cut: an object allocated earlier (distinct from everything
		// allocated from now on), still iterating over the same map / string value
		name := sym("it:" + ins.Name())
		st.declare(name, "Int")
		st.assume(fmt.Sprintf("(and (> %s 0) (< %s %s))", name, name, st.brk))
		for _, o := range st.remat {
			st.assume(fmt.Sprintf("(not (= %s %s))", name, o))
		}
		st.remat = append(st.remat, name)
		val := Value{K: VRef, T: name, Ty: ins.Type(), Fs: []Value{x.get(st, ins.X)}}
		st.env[v] = val
		return val
	case *ssa.MakeMap:
		val := st.named(v.Type(), "v:"+v.Name())
		st.assume("(not (= " + val.T + " 0))") // a made map is never nil
		st.env[v] = val
		return val
	case *ssa.MakeSlice:
		// the slice value made before the cut: same (unknown) array, its length and capacity
		// are still the operands' values
		lv := x.get(st, ins.Len)
		cv := x.get(st, ins.Cap)
		name := sym("ms:" + ins.Name())
		st.declare(name, "Int")
		st.assume(fmt.Sprintf("(and (>= %s |brk0|) (< %s %s) (> %s 0))", name, name, st.brk, name))
		for _, o := range st.remat {
			st.assume(fmt.Sprintf("(not (= %s %s))", name, o))
		}
		st.remat = append(st.remat, name)
		val := Value{K: VSlice, Arr: name, Off: "0", Len: lv.T, Cap: cv.T, Ty: ins.Type()}
		st.assume(fmt.Sprintf("(and (<= 0 %s) (<= %s %s))", lv.T, lv.T, cv.T))
		st.env[v] = val
		return val
	case *ssa.Call:
		if b, ok := ins.Call.Value.(*ssa.Builtin); ok && (b.Name() == "len" || b.Name() == "cap" || b.Name() == "min" || b.Name() == "max") {
			quiet := st.fx.eng.quiet(st)
			defer quiet()
			x.step(st, x.fx.fn, ins, true)
			return st.env[v]
		}
	}
	val := st.named(v.Type(), "v:"+v.Name())
	// the result of a pure library constructor documented to be non-nil is still non-nil
	if call, ok := v.(*ssa.Call); ok {
		if callee, ok := call.Call.Value.(*ssa.Function); ok {
			if k := x.eng.cs.Funcs[funcFullName(callee)]; k != nil && k.Pure {
				for _, en := range k.Ensures {
					for _, cj := range x.eng.cs.goals(en.E) {
						if strings.ReplaceAll(cj.String(), " ", "") == "(result!=nil)" && (val.K == VRef || val.K == VIface || val.K == VMap || val.K == VFunc) {
							st.assume("(not (= " + val.T + " 0))")
						}
					}
				}
			}
		}
	}
	// a closure value keeps its function identity
	if mc, ok := v.(*ssa.MakeClosure); ok {
		val.Clo = &Closure{Fn: mc.Fn}
	}
	st.env[v] = val
	return val
}

func (e *Engine) quiet(st *State) func() {
	st.quiet++
	return func() { st.quiet-- }
}

func (e *Engine) isQuiet(st *State) bool { return st.quiet > 0 }

// panicObl registers a run-time panic obligation.
func (x *Exec) panicObl(st *State, ins ssa.Instruction, class, goal, desc string) {
	if x.eng.isQuiet(st) {
		return
	}
	x.eng.oblige(x.fx, st, class, x.fx.siteKey(ins, ""), goal, desc, ins.Pos())
	// after the check the program continues only if the condition held
	st.assume(goal)
}

func (x *Exec) addrOf(st *State, v Value, ins ssa.Instruction) Addr {
	switch v.K {
	case VAddr:
		return *v.A
	case VRef:
		pt, ok := v.Ty.Underlying().(*types.Pointer)
		if !ok {
			st.unsupported("deref of non-pointer " + typeKey(v.Ty))
		}
		return Addr{Root: v.T, Key: rootKey(pt.Elem()), Ty: pt.Elem()}
	}
	st.unsupported("address of kind " + v.K.String())
	return Addr{}
}

func (x *Exec) nilCheck(st *State, ins ssa.Instruction, v Value) {
	if v.K == VRef {
		if strings.HasPrefix(v.T, "|new!") || strings.HasPrefix(v.T, "|al:") {
			return
		}
		x.panicObl(st, ins, "nilderef", fmt.Sprintf("(not (= %s 0))", v.T), "nil pointer dereference")
	}
}

// step executes one non-control instruction; it returns the successor states (usually [st]).
func (x *Exec) step(st *State, fn *ssa.Function, ins ssa.Instruction, top bool) []*State {
	one := []*State{st}
	switch ins := ins.(type) {
	case *ssa.Alloc:
		pt := ins.Type().(*types.Pointer).Elem()
		st.env[ins] = st.alloc(pt)
		if constCell(ins) {
			st.markConst(st.env[ins].T)
		}
	case *ssa.Store:
		a := x.get(st, ins.Addr)
		x.nilCheck(st, ins, a)
		val := x.get(st, ins.Val)
		ad := x.addrOf(st, a, ins)
		if len(x.eng.cs.NonNil) > 0 && val.K < VSlice && val.K >= VRef && x.eng.cs.NonNil[fullTypeName(ins.Val.Type())] {
			if _, isAlloc := ins.Addr.(*ssa.Alloc); !isAlloc {
				goal := "(not (= " + val.T + " 0))"
				if strings.HasPrefix(ad.Key, "elem:") && ad.Root != "" {
					// an array allocated by this very call is not visible to anybody else yet: what it
					// holds when it is handed out is the producer's postcondition, not an at-rest invariant
					goal = fmt.Sprintf("(or %s (>= %s |brk0|))", goal, ad.Root)
				}
				x.panicObl(st, ins, "nonnil", goal, "nil stored into a location of a type declared non-nil")
			}
		}
		ix := ""
		if len(ad.Idx) > 0 {
			ix = ad.Idx[0]
		}
		x.frameCheck(st, ins, ad.Key, ad.Root, ix, ad.Key)
		x.accessCheck(st, ins, ad)
		st.storeAt(ad, val)
	case *ssa.UnOp:
		xv := x.get(st, ins.X)
		switch ins.Op {
		case token.MUL:
			x.nilCheck(st, ins, xv)
			if xv.K == VRef && xv.Orig != nil {
				// *(*string)(unsafe.Pointer(&b)) : no-copy string view of a byte slice
				if op, ok := xv.Orig.Underlying().(*types.Pointer); ok {
					if sl, ok := op.Elem().Underlying().(*types.Slice); ok && kindOf(ins.Type()) == VStr {
						if bt, ok := sl.Elem().Underlying().(*types.Basic); ok && bt.Kind() == types.Uint8 {
							bv := st.loadAt(Addr{Root: xv.T, Key: rootKey(op.Elem()), Ty: op.Elem()})
							h := st.heapTermIn(st.heap, "elem:"+typeKey(sl.Elem()), 2, "Int")
							r := Value{K: VStr, T: fmt.Sprintf("(bytes_str (select %s %s) %s %s)", h, bv.Arr, bv.Off, bv.Len), Ty: ins.Type()}
							st.env[ins] = r
							return one
						}
					}
				}
				st.unsupported("load through an unsafe pointer conversion")
			}
			la := x.addrOf(st, xv, ins)
			x.accessCheck(st, ins, la)
			st.env[ins] = st.loadAt(la)
		case token.SUB:
			if xv.K == VReal {
				st.env[ins] = Value{K: VReal, T: "(- " + xv.T + ")", Ty: ins.Type()}
			} else {
				st.env[ins] = Value{K: VInt, T: wrapTerm("(- "+xv.T+")", ins.Type(), true), Ty: ins.Type()}
			}
		case token.NOT:
			st.env[ins] = Value{K: VBool, T: not(xv.T), Ty: ins.Type()}
		case token.XOR:
			st.env[ins] = Value{K: VInt, T: wrapTerm("(- (- "+xv.T+") 1)", ins.Type(), false), Ty: ins.Type()}
		case token.ARROW:
			return x.chanRecv(st, ins, xv)
		default:
			st.unsupported("unop " + ins.Op.String())
		}
	case *ssa.BinOp:
		st.env[ins] = x.binop(st, ins)
	case *ssa.FieldAddr:
		xv := x.get(st, ins.X)
		x.nilCheck(st, ins, xv)
		a := x.addrOf(st, xv, ins)
		s := a.Ty.Underlying().(*types.Struct)
		na := Addr{Root: a.Root, Key: a.Key + "." + fieldName(s, ins.Field), Idx: a.Idx, Ty: s.Field(ins.Field).Type()}
		st.env[ins] = Value{K: VAddr, A: &na, Ty: ins.Type()}
	case *ssa.Field:
		xv := x.get(st, ins.X)
		if xv.K != VStruct {
			st.unsupported("field of non-struct value")
		}
		st.env[ins] = xv.Fs[ins.Field]
	case *ssa.IndexAddr:
		xv := x.get(st, ins.X)
		iv := x.get(st, ins.Index)
		switch xv.K {
		case VSlice:
			x.panicObl(st, ins, "idx", fmt.Sprintf("(and (<= 0 %s) (< %s %s))", iv.T, iv.T, xv.Len), "index out of range")
			et := xv.Ty.Underlying().(*types.Slice).Elem()
			na := Addr{Root: xv.Arr, Key: "elem:" + typeKey(et), Idx: []string{"(+ " + xv.Off + " " + iv.T + ")"}, Ty: et}
			st.env[ins] = Value{K: VAddr, A: &na, Ty: ins.Type()}
		case VRef, VAddr:
			x.nilCheck(st, ins, xv)
			a := x.addrOf(st, xv, ins)
			arr, ok := a.Ty.Underlying().(*types.Array)
			if !ok {
				st.unsupported("IndexAddr on non-array pointer")
			}
			x.panicObl(st, ins, "idx", fmt.Sprintf("(and (<= 0 %s) (< %s %d))", iv.T, iv.T, arr.Len()), "array index out of range")
			na := Addr{Root: a.Root, Key: a.Key, Idx: append(append([]string(nil), a.Idx...), iv.T), Ty: arr.Elem()}
			if len(na.Idx) > 1 {
				st.unsupported("nested array indexing")
			}
			st.env[ins] = Value{K: VAddr, A: &na, Ty: ins.Type()}
		default:
			st.unsupported("IndexAddr on " + xv.K.String())
		}
	case *ssa.Index:
		xv := x.get(st, ins.X)
		iv := x.get(st, ins.Index)
		switch xv.K {
		case VArray:
			arr := xv.Ty.Underlying().(*types.Array)
			x.panicObl(st, ins, "idx", fmt.Sprintf("(and (<= 0 %s) (< %s %d))", iv.T, iv.T, arr.Len()), "array index out of range")
			v := Value{K: kindOf(arr.Elem()), T: "(select " + xv.T + " " + iv.T + ")", Ty: arr.Elem()}
			st.assumeTypeInv(v)
			st.env[ins] = v
		case VStr:
			x.panicObl(st, ins, "idx", fmt.Sprintf("(and (<= 0 %s) (< %s (slen %s)))", iv.T, iv.T, xv.T), "string index out of range")
			st.env[ins] = Value{K: VInt, T: "(sat " + xv.T + " " + iv.T + ")", Ty: ins.Type()}
		default:
			st.unsupported("Index on " + xv.K.String())
		}
	case *ssa.Lookup:
		xv := x.get(st, ins.X)
		iv := x.get(st, ins.Index)
		if xv.K == VStr {
			x.panicObl(st, ins, "idx", fmt.Sprintf("(and (<= 0 %s) (< %s (slen %s)))", iv.T, iv.T, xv.T), "string index out of range")
			st.env[ins] = Value{K: VInt, T: "(sat " + xv.T + " " + iv.T + ")", Ty: types.Typ[types.Uint8]}
			return one
		}
		return x.mapLookup(st, ins, xv, iv)
	case *ssa.Slice:
		return x.sliceOp(st, ins)
	case *ssa.Extract:
		tv := x.get(st, ins.Tuple)
		if tv.K != VTuple || ins.Index >= len(tv.Fs) {
			st.unsupported("extract from non-tuple")
		}
		st.env[ins] = tv.Fs[ins.Index]
	case *ssa.ChangeType:
		v := x.get(st, ins.X)
		v.Ty = ins.Type()
		st.env[ins] = v
	case *ssa.Convert:
		st.env[ins] = x.convert(st, ins)
	case *ssa.MakeInterface:
		xv := x.get(st, ins.X)
		idv := st.alloc(types.Typ[types.Bool]) // a fresh identity (allocated during this call)
		v := Value{K: VIface, T: idv.T, Ty: ins.Type()}
		st.assume(fmt.Sprintf("(= (dyn_type %s) %s)", v.T, x.typeTag(st, ins.X.Type())))
		if xv.K < VSlice {
			st.assume(fmt.Sprintf("(= (%s %s) %s)", ifaceValFn(xv.K), v.T, xv.T))
		}
		if xv.K == VRef {
			v.Fs = []Value{xv} // dynamic value known on this path (used by modifies dyn(x).*)
			// an object allocated during this call and converted to an interface exactly once:
			// the ghost state attached to the new interface identity is still initial
			if soleIfaceConversion(ins) {
				for _, g := range x.eng.cs.Ghosts {
					if g.Arg != "iface" {
						continue
					}
					sort, _ := ghostSort(g)
					z := ghostZero(g.Res)
					h := st.heapTermIn(st.heap, "ghost:"+g.Name, 1, sort)
					st.assume(fmt.Sprintf("(=> (>= %s |brk0|) (= (select %s %s) %s))", xv.T, h, v.T, z))
				}
			}
		}
		st.env[ins] = v
	case *ssa.ChangeInterface:
		v := x.get(st, ins.X)
		v.Ty = ins.Type()
		st.env[ins] = v
	case *ssa.TypeAssert:
		xv := x.get(st, ins.X)
		tag := x.typeTag(st, ins.AssertedType)
		_, toIface := ins.AssertedType.Underlying().(*types.Interface)
		okT := fmt.Sprintf("(and (not (= %s 0)) (= (dyn_type %s) %s))", xv.T, xv.T, tag)
		var res Value
		if toIface {
			okb := st.fresh(types.Typ[types.Bool], "taok")
			okT = fmt.Sprintf("(and (not (= %s 0)) %s)", xv.T, okb.T)
			res = Value{K: VIface, T: xv.T, Ty: ins.AssertedType}
		} else {
			res = st.fresh(ins.AssertedType, "ta")
			if res.K < VSlice {
				st.assume(fmt.Sprintf("(=> %s (= (%s %s) %s))", okT, ifaceValFn(res.K), xv.T, res.T))
			}
		}
		if ins.CommaOk {
			st.env[ins] = Value{K: VTuple, Fs: []Value{res, {K: VBool, T: okT, Ty: types.Typ[types.Bool]}}, Ty: ins.Type()}
		} else {
			x.panicObl(st, ins, "assert-type", okT, "type assertion may fail")
			st.env[ins] = res
		}
	case *ssa.MakeClosure:
		f := ins.Fn.(*ssa.Function)
		var binds []Value
		for _, b := range ins.Bindings {
			binds = append(binds, x.get(st, b))
		}
		idc := st.alloc(types.Typ[types.Bool]) // a closure value is a new object with its own identity
		v := Value{K: VFunc, T: idc.T, Ty: ins.Type()}
		for _, g := range x.eng.cs.Ghosts {
			if g.Arg != "func" {
				continue
			}
			sort, _ := ghostSort(g)
			h := st.heapTermIn(st.heap, "ghost:"+g.Name, 1, sort)
			st.heapSet("ghost:"+g.Name, fmt.Sprintf("(store %s %s %s)", h, v.T, ghostZero(g.Res)))
		}
		v.Clo = &Closure{Fn: f, Binds: binds}
		x.closurePre(st, ins, f, binds)
		st.env[ins] = v
	case *ssa.MakeSlice:
		lv := x.get(st, ins.Len)
		cv := x.get(st, ins.Cap)
		x.panicObl(st, ins, "neglen", fmt.Sprintf("(and (<= 0 %s) (<= %s %s) (<= %s 9223372036854775807))", lv.T, lv.T, cv.T, cv.T), "make: len out of range")
		et := ins.Type().Underlying().(*types.Slice).Elem()
		r := st.alloc(types.NewArray(et, 0))
		st.env[ins] = Value{K: VSlice, Arr: r.T, Off: "0", Len: lv.T, Cap: cv.T, Ty: ins.Type()}
	case *ssa.MakeMap:
		st.env[ins] = x.makeMap(st, ins)
	case *ssa.MakeChan:
		idv := st.alloc(types.Typ[types.Bool]) // fresh channel identity
		v := Value{K: VChan, T: idv.T, Ty: ins.Type()}
		sz := x.get(st, ins.Size)
		for _, g := range [][2]string{{"chan_cap", sz.T}, {"chan_sends", "0"}, {"chan_recvs", "0"}} {
			h := st.heapTermIn(st.heap, "ghost:"+g[0], 1, "Int")
			st.heapSet("ghost:"+g[0], fmt.Sprintf("(store %s %s %s)", h, v.T, g[1]))
		}
		ch := st.heapTermIn(st.heap, "ghost:chan_closed", 1, "Bool")
		st.heapSet("ghost:chan_closed", fmt.Sprintf("(store %s %s false)", ch, v.T))
		st.env[ins] = v
	case *ssa.MapUpdate:
		return x.mapUpdate(st, ins)
	case *ssa.Range:
		return x.rangeInit(st, ins)
	case *ssa.Next:
		return x.rangeNext(st, ins)
	case *ssa.Call:
		return x.call(st, fn, ins, ins.Common(), top)
	case *ssa.Defer:
		var args []Value
		for _, a := range ins.Call.Args {
			args = append(args, x.get(st, a))
		}
		var fv Value
		if !ins.Call.IsInvoke() {
			fv = x.get(st, ins.Call.Value)
		} else {
			fv = x.get(st, ins.Call.Value)
		}
		st.defers = append(st.defers, deferred{call: ins, args: args, fn: fv})
	case *ssa.RunDefers:
		return x.runDefers(st, fn, ins, top)
	case *ssa.Go:
		return x.goStmt(st, fn, ins)
	case *ssa.Send:
		return x.chanSend(st, ins)
	case *ssa.Select:
		return x.selectStmt(st, ins)
	case *ssa.SliceToArrayPointer, *ssa.MultiConvert:
		st.unsupported(fmt.Sprintf("%T", ins))
	default:
		st.unsupported(fmt.Sprintf("instruction %T", ins))
	}
	return one
}

func ifaceValFn(k VK) string {
	switch k {
	case VBool:
		return "iface_bool"
	case VReal:
		return "iface_real"
	case VStr:
		return "iface_str"
	}
	return "iface_int"
}

func (x *Exec) typeTag(st *State, t types.Type) string {
	name := sym("type:" + types.TypeString(t, nil))
	if !st.declSet[name] {
		st.declare(name, "Int")
		// distinct tags: encode by a per-engine ordinal
		x.eng.mu.Lock()
		id, ok := x.eng.typeIDs[name]
		if !ok {
			id = len(x.eng.typeIDs) + 1
			x.eng.typeIDs[name] = id
		}
		x.eng.mu.Unlock()
		st.assume(fmt.Sprintf("(= %s %d)", name, id))
	}
	return name
}

func isUnsigned(t types.Type) bool {
	b, ok := t.Underlying().(*types.Basic)
	return ok && b.Info()&types.IsUnsigned != 0
}

func pow2(n int) string { return new(big.Int).Lsh(big.NewInt(1), uint(n)).String() }

func constInt(v ssa.Value) (int64, bool) {
	c, ok := v.(*ssa.Const)
	if !ok || c.Value == nil || c.Value.Kind() != constant.Int {
		return 0, false
	}
	i, exact := constant.Int64Val(c.Value)
	return i, exact
}

func (x *Exec) binop(st *State, ins *ssa.BinOp) Value {
	a := x.get(st, ins.X)
	b := x.get(st, ins.Y)
	t := ins.Type()
	bv := func(s string) Value { return Value{K: VBool, T: s, Ty: t} }
	switch ins.Op {
	case token.EQL, token.NEQ:
		var eq string
		switch {
		case a.K == VSlice || b.K == VSlice:
			// comparison with nil
			if a.K == VSlice && b.K == VSlice {
				if b.Arr == "0" {
					eq = "(= " + a.Arr + " 0)"
				} else {
					eq = "(= " + b.Arr + " 0)"
				}
			} else {
				st.unsupported("slice comparison")
			}
		case a.K == VStruct || a.K == VTuple:
			eq = x.structEq(st, a, b)
		case a.K == VAddr || b.K == VAddr:
			if a.K == VAddr && b.K == VRef && b.T == "0" || b.K == VAddr && a.K == VRef && a.T == "0" {
				eq = "false"
			} else {
				a, b = st.addrToRef2(a), st.addrToRef2(b)
				eq = "(= " + a.T + " " + b.T + ")"
			}
		case a.K == VArray:
			st.unsupported("array comparison")
		default:
			eq = "(= " + a.T + " " + b.T + ")"
		}
		if ins.Op == token.NEQ {
			return bv(not(eq))
		}
		return bv(eq)
	case token.LSS, token.LEQ, token.GTR, token.GEQ:
		op := map[token.Token]string{token.LSS: "<", token.LEQ: "<=", token.GTR: ">", token.GEQ: ">="}[ins.Op]
		if a.K == VStr {
			switch ins.Op {
			case token.LSS:
				return bv("(str_lt " + a.T + " " + b.T + ")")
			case token.GTR:
				return bv("(str_lt " + b.T + " " + a.T + ")")
			case token.LEQ:
				return bv("(not (str_lt " + b.T + " " + a.T + "))")
			default:
				return bv("(not (str_lt " + a.T + " " + b.T + "))")
			}
		}
		return bv("(" + op + " " + a.T + " " + b.T + ")")
	}
	if a.K == VStr && ins.Op == token.ADD {
		return Value{K: VStr, T: "(scat " + a.T + " " + b.T + ")", Ty: t}
	}
	if a.K == VBool {
		switch ins.Op {
		case token.AND, token.LAND:
			return bv(and(a.T, b.T))
		case token.OR, token.LOR:
			return bv(or(a.T, b.T))
		}
	}
	if a.K == VReal {
		op := map[token.Token]string{token.ADD: "+", token.SUB: "-", token.MUL: "*", token.QUO: "/"}[ins.Op]
		if op == "" {
			st.unsupported("float op " + ins.Op.String())
		}
		if ins.Op == token.QUO {
			// IEEE: x/0 = ±Inf/NaN, not a panic. Reals have no such values: the quotient by zero is left unconstrained.
			r := st.fresh(t, "fdiv")
			st.assume(fmt.Sprintf("(=> (not (= %s 0.0)) (= %s (/ %s %s)))", b.T, r.T, a.T, b.T))
			return r
		}
		return Value{K: VReal, T: "(" + op + " " + a.T + " " + b.T + ")", Ty: t}
	}
	// integers
	iv := func(s string) Value { return Value{K: VInt, T: s, Ty: t} }
	switch ins.Op {
	case token.ADD:
		return iv(wrapTerm("(+ "+a.T+" "+b.T+")", t, true))
	case token.SUB:
		return iv(wrapTerm("(- "+a.T+" "+b.T+")", t, true))
	case token.MUL:
		return iv(wrapTerm("(* "+a.T+" "+b.T+")", t, false))
	case token.QUO, token.REM:
		x.panicObl(st, ins, "div0", "(not (= "+b.T+" 0))", "integer divide by zero")
		// Go's truncated division as the functions tquo/trem (so equal operands give equal results);
		// their defining facts are instantiated here for these operands.
		q := "(tquo " + a.T + " " + b.T + ")"
		r := "(trem " + a.T + " " + b.T + ")"
		st.assume(divFacts(a.T, b.T, t))
		if ins.Op == token.QUO {
			return iv(q)
		}
		return iv(r)
	case token.SHL, token.SHR:
		if !isUnsigned(ins.Y.Type()) {
			if _, isC := ins.Y.(*ssa.Const); !isC {
				x.panicObl(st, ins, "shift", "(>= "+b.T+" 0)", "negative shift amount")
			}
		}
		if c, ok := constInt(ins.Y); ok && c >= 0 && c < 64 {
			if ins.Op == token.SHL {
				return iv(wrapTerm("(* "+a.T+" "+pow2(int(c))+")", t, false))
			}
			return iv("(div " + a.T + " " + pow2(int(c)) + ")")
		}
		fnm := "int_shl"
		if ins.Op == token.SHR {
			fnm = "int_shr"
		}
		r := st.fresh(t, "sh")
		st.assume(fmt.Sprintf("(= %s (%s %s %s))", r.T, fnm, a.T, b.T))
		if ins.Op == token.SHR {
			st.assume(fmt.Sprintf("(=> (>= %s 0) (and (<= 0 %s) (<= %s %s)))", a.T, r.T, r.T, a.T))
		}
		return r
	case token.AND:
		if c, ok := constInt(ins.Y); ok && c >= 0 && (c&(c+1)) == 0 {
			return iv(fmt.Sprintf("(mod %s %d)", a.T, c+1))
		}
		if c, ok := constInt(ins.X); ok && c >= 0 && (c&(c+1)) == 0 {
			return iv(fmt.Sprintf("(mod %s %d)", b.T, c+1))
		}
		r := st.fresh(t, "and")
		st.assume(fmt.Sprintf("(= %s (int_and %s %s))", r.T, a.T, b.T))
		st.assume(fmt.Sprintf("(=> (and (>= %s 0) (>= %s 0)) (and (<= 0 %s) (<= %s %s) (<= %s %s)))", a.T, b.T, r.T, r.T, a.T, r.T, b.T))
		return r
	case token.OR, token.XOR, token.AND_NOT:
		fnm := map[token.Token]string{token.OR: "int_or", token.XOR: "int_xor", token.AND_NOT: "int_andnot"}[ins.Op]
		r := st.fresh(t, "bit")
		st.assume(fmt.Sprintf("(= %s (%s %s %s))", r.T, fnm, a.T, b.T))
		return r
	}
	st.unsupported("binop " + ins.Op.String())
	return Value{}
}

func (st *State) addrToRef2(v Value) Value {
	if v.K == VAddr {
		return st.addrToRef(v)
	}
	return v
}

func (x *Exec) structEq(st *State, a, b Value) string {
	if len(a.Fs) != len(b.Fs) {
		st.unsupported("struct comparison arity")
	}
	var parts []string
	for i := range a.Fs {
		fa, fb := a.Fs[i], b.Fs[i]
		switch {
		case fa.K == VStruct:
			parts = append(parts, x.structEq(st, fa, fb))
		case fa.K >= VSlice:
			st.unsupported("struct comparison with aggregate field")
		default:
			parts = append(parts, "(= "+fa.T+" "+fb.T+")")
		}
	}
	return and(parts...)
}

func (x *Exec) sliceOp(st *State, ins *ssa.Slice) []*State {
	xv := x.get(st, ins.X)
	var lo, hi, mx string
	lo = "0"
	if ins.Low != nil {
		lo = x.get(st, ins.Low).T
	}
	if ins.High != nil {
		hi = x.get(st, ins.High).T
	}
	if ins.Max != nil {
		mx = x.get(st, ins.Max).T
	}
	switch xv.K {
	case VStr:
		if hi == "" {
			hi = "(slen " + xv.T + ")"
		}
		x.panicObl(st, ins, "slice", fmt.Sprintf("(and (<= 0 %s) (<= %s %s) (<= %s (slen %s)))", lo, lo, hi, hi, xv.T), "string slice bounds out of range")
		st.env[ins] = Value{K: VStr, T: fmt.Sprintf("(ssub %s %s %s)", xv.T, lo, hi), Ty: ins.Type()}
	case VSlice:
		if hi == "" {
			hi = xv.Len
		}
		capT := xv.Cap
		bound := xv.Cap
		if mx != "" {
			x.panicObl(st, ins, "slice", fmt.Sprintf("(and (<= 0 %s) (<= %s %s) (<= %s %s) (<= %s %s))", lo, lo, hi, hi, mx, mx, xv.Cap), "slice bounds out of range (3-index)")
			capT = mx
		} else {
			x.panicObl(st, ins, "slice", fmt.Sprintf("(and (<= 0 %s) (<= %s %s) (<= %s %s))", lo, lo, hi, hi, bound), "slice bounds out of range")
		}
		st.env[ins] = Value{K: VSlice, Arr: xv.Arr, Off: "(+ " + xv.Off + " " + lo + ")", Len: "(- " + hi + " " + lo + ")", Cap: "(- " + capT + " " + lo + ")", Ty: ins.Type()}
	case VRef, VAddr:
		a := x.addrOf(st, xv, ins)
		arr, ok := a.Ty.Underlying().(*types.Array)
		if !ok || len(a.Idx) > 0 {
			st.unsupported("slice of non-array pointer")
		}
		n := fmt.Sprint(arr.Len())
		if hi == "" {
			hi = n
		}
		capT := n
		if mx != "" {
			capT = mx
		}
		x.panicObl(st, ins, "slice", fmt.Sprintf("(and (<= 0 %s) (<= %s %s) (<= %s %s) (<= %s %s))", lo, lo, hi, hi, capT, capT, n), "slice bounds out of range")
		st.env[ins] = Value{K: VSlice, Arr: a.Root, Off: lo, Len: "(- " + hi + " " + lo + ")", Cap: "(- " + capT + " " + lo + ")", Ty: ins.Type()}
	default:
		st.unsupported("slice of " + xv.K.String())
	}
	return []*State{st}
}

func (x *Exec) convert(st *State, ins *ssa.Convert) Value {
	v := x.get(st, ins.X)
	from, to := ins.X.Type(), ins.Type()
	fk, tk := kindOf(from), kindOf(to)
	switch {
	case fk == VInt && tk == VInt:
		flo, fhi, _ := intRange(from)
		tlo, thi, _ := intRange(to)
		if flo.Cmp(tlo) >= 0 && fhi.Cmp(thi) <= 0 {
			return Value{K: VInt, T: v.T, Ty: to}
		}
		return Value{K: VInt, T: wrapTerm(v.T, to, false), Ty: to}
	case fk == VInt && tk == VReal:
		return Value{K: VReal, T: "(to_real " + v.T + ")", Ty: to}
	case fk == VReal && tk == VReal:
		return Value{K: VReal, T: v.T, Ty: to}
	case fk == VReal && tk == VInt:
		// float -> int: truncation when representable; otherwise an implementation-defined but
		// deterministic value (uninterpreted function of the operand)
		tr := fmt.Sprintf("(ite (>= %s 0.0) (to_int %s) (- (to_int (- %s))))", v.T, v.T, v.T)
		r := Value{K: VInt, T: "(f2i_any " + v.T + ")", Ty: to}
		lo, hi, _ := intRange(to)
		r.T = fmt.Sprintf("(ite %s %s (f2i_oor %s %s))", inRange(tr, to), tr, v.T, smtInt(hi))
		st.assume(fmt.Sprintf("(and (<= %s (f2i_oor %s %s)) (<= (f2i_oor %s %s) %s))", smtInt(lo), v.T, smtInt(hi), v.T, smtInt(hi), smtInt(hi)))
		return r
	case fk == VStr && tk == VSlice:
		// []byte(s) / []rune(s)
		et := to.Underlying().(*types.Slice).Elem()
		ref := st.alloc(types.NewArray(et, 0))
		r := Value{K: VSlice, Arr: ref.T, Off: "0", Ty: to}
		if b, ok := et.Underlying().(*types.Basic); ok && b.Kind() == types.Uint8 {
			r.Len = "(slen " + v.T + ")"
			r.Cap = r.Len
			h := st.heapTermIn(st.heap, "elem:"+typeKey(et), 2, "Int")
			st.assume(fmt.Sprintf("(forall ((i Int)) (! (=> (and (<= 0 i) (< i (slen %s))) (= (select (select %s %s) i) (sat %s i))) :pattern ((select (select %s %s) i))))", v.T, h, ref.T, v.T, h, ref.T))
		} else {
			n := st.fresh(types.Typ[types.Int], "nrunes")
			st.assume(fmt.Sprintf("(and (<= 0 %s) (<= %s (slen %s)) (=> (> (slen %s) 0) (> %s 0)))", n.T, n.T, v.T, v.T, n.T))
			st.assume(fmt.Sprintf("(= %s (rune_count %s))", n.T, v.T))
			r.Len, r.Cap = n.T, n.T
			// contents: runes of the string (abstract): elem[ref][i] = rune_at(s,i)
			st.heapSortOf("elem:"+typeKey(et), 2, "Int")
			h := st.heapTermIn(st.heap, "elem:"+typeKey(et), 2, "Int")
			st.heapSet("elem:"+typeKey(et), fmt.Sprintf("(store %s %s (runes_of %s))", h, ref.T, v.T))
		}
		return r
	case fk == VSlice && tk == VStr:
		et := from.Underlying().(*types.Slice).Elem()
		r := st.fresh(to, "str")
		if b, ok := et.Underlying().(*types.Basic); ok && b.Kind() == types.Uint8 {
			h := st.heapTermIn(st.heap, "elem:"+typeKey(et), 2, "Int")
			return Value{K: VStr, T: fmt.Sprintf("(bytes_str (select %s %s) %s %s)", h, v.Arr, v.Off, v.Len), Ty: to}
		} else {
			h := st.heapTermIn(st.heap, "elem:"+typeKey(et), 2, "Int")
			st.assume(fmt.Sprintf("(= %s (str_of_runes (select %s %s) %s %s))", r.T, h, v.Arr, v.Off, v.Len))
		}
		return r
	case fk == VInt && tk == VStr:
		r := st.fresh(to, "runestr")
		st.assume(fmt.Sprintf("(= %s (str_of_rune %s))", r.T, v.T))
		st.assume(fmt.Sprintf("(and (>= (slen %s) 1) (<= (slen %s) 4))", r.T, r.T))
		st.assume(fmt.Sprintf("(=> (and (<= 0 %s) (< %s 128)) (and (= (slen %s) 1) (= (sat %s 0) %s)))", v.T, v.T, r.T, r.T, v.T))
		return r
	case fk == VRef && tk == VRef:
		orig := v.Orig
		if orig == nil {
			orig = from
		}
		return Value{K: VRef, T: v.T, Ty: to, Orig: orig}
	}
	st.unsupported(fmt.Sprintf("convert %s -> %s", typeKey(from), typeKey(to)))
	return Value{}
}

// divFacts instantiates the definition of Go's truncated division for operands a, b of type t
// (machine quotient: MinInt / -1 wraps to MinInt with remainder 0).
func divFacts(a, b string, t types.Type) string {
	q := "(tquo " + a + " " + b + ")"
	r := "(trem " + a + " " + b + ")"
	absb := "(ite (>= " + b + " 0) " + b + " (- " + b + "))"
	ovf := "false"
	rng := "true"
	if lo, _, ok := intRange(t); ok {
		if lo.Sign() < 0 {
			ovf = fmt.Sprintf("(and (= %s %s) (= %s (- 1)))", a, smtInt(lo), b)
		}
		rng = inRange(q, t)
	}
	return fmt.Sprintf("(=> (not (= %s 0)) (and (ite %s (and (= %s %s) (= %s 0)) (= %s (+ (* %s %s) %s))) (ite (>= %s 0) (and (<= 0 %s) (< %s %s)) (and (<= %s 0) (< (- %s) %s))) %s))",
		b, ovf, q, a, r, a, q, b, r, a, r, r, absb, r, r, absb, rng)
}

// accessCheck emits the lock-discipline obligations for a direct read or write of a field
// declared `guarded ... by <mutex>` (the mutex of the same object must be held) or
// `atomicfield` (only sync/atomic may touch it), unless the object was allocated in this call
// and is therefore not yet shared.
func (x *Exec) accessCheck(st *State, ins ssa.Instruction, a Addr) {
	cs := x.eng.cs
	if len(cs.Guarded) == 0 && len(cs.Atomic) == 0 || st.quiet > 0 {
		return
	}
	base := a.Key
	if i := strings.Index(base, "#"); i >= 0 {
		base = base[:i]
	}
	if _, ok := cs.Guarded[base]; ok {
		h := st.heapTermIn(st.heap, "ghost:mu_held", 1, "Bool")
		goal := fmt.Sprintf("(or (>= %s |brk0|) (select %s %s))", a.Root, h, a.Root)
		x.eng.oblige(x.fx, st, "lock", x.fx.siteKey(ins, base), goal, "access to "+base+" without holding "+cs.Guarded[base], ins.Pos())
	}
	if cs.Atomic[base] {
		goal := fmt.Sprintf("(>= %s |brk0|)", a.Root)
		x.eng.oblige(x.fx, st, "atomic", x.fx.siteKey(ins, base), goal, "plain (non-atomic) access to "+base, ins.Pos())
	}
}

// mutexCall models sync.Mutex / sync.RWMutex operations on the ghost lock state of the object
// that contains the mutex. It returns true if the call was handled.
func (x *Exec) mutexCall(st *State, ins ssa.Instruction, name string, args []Value) bool {
	var op string
	switch name {
	case "sync.(*Mutex).Lock", "sync.(*RWMutex).Lock", "sync.(*RWMutex).RLock":
		op = "lock"
	case "sync.(*Mutex).Unlock", "sync.(*RWMutex).Unlock", "sync.(*RWMutex).RUnlock":
		op = "unlock"
	default:
		return false
	}
	if len(args) == 0 {
		return false
	}
	root := args[0].T
	if args[0].K == VAddr {
		root = args[0].A.Root
	}
	if root == "" {
		return false
	}
	h := st.heapTermIn(st.heap, "ghost:mu_held", 1, "Bool")
	if op == "lock" {
		x.panicObl(st, ins, "lock", fmt.Sprintf("(not (select %s %s))", h, root), "mutex locked while already held by this goroutine (self-deadlock)")
		st.heapSet("ghost:mu_held", fmt.Sprintf("(store %s %s true)", h, root))
	} else {
		x.panicObl(st, ins, "lock", fmt.Sprintf("(select %s %s)", h, root), "unlock of a mutex that is not held")
		st.heapSet("ghost:mu_held", fmt.Sprintf("(store %s %s false)", h, root))
	}
	return true
}

func soleIfaceConversion(mi *ssa.MakeInterface) bool {
	refs := mi.X.Referrers()
	if refs == nil {
		return false
	}
	n := 0
	for _, r := range *refs {
		if _, ok := r.(*ssa.MakeInterface); ok {
			n++
		}
	}
	return n == 1
}

func ghostZero(res string) string {
	switch res {
	case "bool":
		return "false"
	case "str":
		return "str_empty"
	case "real":
		return "0.0"
	case "bytes", "ints":
		return "((as const (Array Int Int)) 0)"
	case "reals":
		return "((as const (Array Int Real)) 0.0)"
	case "strs":
		return "((as const (Array Int Str)) str_empty)"
	}
	return "0"
}
