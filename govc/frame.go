package main

import (
	"fmt"
	"go/token"
	"strings"

	"golang.org/x/tools/go/ssa"
)

// frameLoc is one location a function under contract declared it may modify, evaluated at entry.
type frameLoc struct {
	Key    string // heap key (exact) or prefix (when Prefix)
	Prefix bool
	Root   string // reference term the location belongs to ("" = any)
	Lo, Hi string // element range (absolute indices) for slice ranges, "" = whole array
	Heap   bool
	Except []string // with Heap: key prefixes that are NOT covered ("world except T, U")
}

// buildFrame evaluates the function's own modifies clause in the entry state.
func (x *Exec) buildFrame(st *State) {
	c := x.fx.contract
	st.frame = nil
	st.hasFrame = false
	if c == nil || !c.HasMod {
		return
	}
	st.hasFrame = true
	sc := x.specCtx(st, st.old, st.old, x.paramNames(st, c))
	for _, loc := range c.Modifies {
		loc = strings.TrimSpace(loc)
		switch {
		case loc == "heap" || loc == "world":
			st.frame = append(st.frame, frameLoc{Heap: true})
		case strings.HasPrefix(loc, "world except "):
			var ex []string
			for _, p := range worldExcept(loc) {
				if strings.HasPrefix(p, "ghost ") {
					// the function must not run an operation whose contract names this ghost
					ex = append(ex, "ghost:"+strings.TrimSpace(strings.TrimPrefix(p, "ghost ")))
					continue
				}
				ex = append(ex, x.typePrefix(p))
			}
			st.frame = append(st.frame, frameLoc{Heap: true, Except: ex})
		case strings.HasPrefix(loc, "ghost "):
			g := strings.TrimSpace(strings.TrimPrefix(loc, "ghost "))
			root := ""
			if i := strings.Index(g, "("); i >= 0 && strings.HasSuffix(g, ")") {
				if e, err := ParseExpr(g[i+1 : len(g)-1]); err == nil {
					v := sc.eval(e)
					if v.K == VAddr {
						v = Value{K: VRef, T: v.A.Root}
					}
					root = v.T
				}
				g = g[:i]
			}
			st.frame = append(st.frame, frameLoc{Key: "ghost:" + g, Root: root})
		case strings.HasPrefix(loc, "global "):
			st.frame = append(st.frame, frameLoc{Key: "global:" + strings.TrimSpace(strings.TrimPrefix(loc, "global ")), Prefix: true})
		case strings.HasPrefix(loc, "dyn("):
			v, ok := dynArg(sc, loc)
			if !ok {
				st.unsupported("bad modifies location: " + loc)
			}
			st.frame = append(st.frame, frameLoc{Key: "dyn:", Root: v.T})
			if len(v.Fs) == 1 && v.Fs[0].K == VRef {
				if a := sc.derefAddr(v.Fs[0], nil); true {
					st.frame = append(st.frame, frameLoc{Key: a.Key, Prefix: true, Root: a.Root})
				}
			}
		default:
			all := strings.HasSuffix(loc, ".*")
			whole := strings.HasSuffix(loc, "[..]")
			l2 := strings.TrimSuffix(strings.TrimSuffix(loc, ".*"), "[..]")
			e, err := ParseExpr(l2)
			if err != nil {
				st.unsupported("bad modifies location: " + loc)
			}
			if whole || e.Op == "slice" {
				var sv Value
				lo, hi := "", ""
				if whole {
					sv = sc.eval(e)
				} else {
					sv = sc.eval(e.Args[0])
					if e.Args[1] != nil {
						lo = "(+ " + sv.Off + " " + sc.eval(e.Args[1]).T + ")"
					}
					if e.Args[2] != nil {
						hi = "(+ " + sv.Off + " " + sc.eval(e.Args[2]).T + ")"
					}
				}
				if sv.K != VSlice {
					st.unsupported("modifies range of non-slice: " + loc)
				}
				key, _ := elemKeyOf(sv.Ty)
				st.frame = append(st.frame, frameLoc{Key: key, Prefix: true, Root: sv.Arr, Lo: lo, Hi: hi})
				continue
			}
			a := sc.evalAddr(e)
			st.frame = append(st.frame, frameLoc{Key: a.Key, Prefix: true, Root: a.Root})
			_ = all
		}
	}
}

// frameCheck emits the obligation that a write to (key, root, idx) is allowed by the
// function's modifies clause, or targets an object allocated during this call.
func (x *Exec) frameCheck(st *State, ins ssa.Instruction, key, root string, idx string, what string) {
	if !st.hasFrame || st.quiet > 0 {
		return
	}
	if strings.HasPrefix(key, "ghost:iterpos") || strings.HasPrefix(key, "ghost:visited") {
		return
	}
	var alts []string
	if root != "" && root != "0" {
		alts = append(alts, fmt.Sprintf("(>= %s |brk0|)", root)) // fresh object
	}
	for _, f := range st.frame {
		if f.Heap {
			excepted := false
			for _, p := range f.Except {
				if strings.HasPrefix(p, "ghost:") && key == "*" {
					continue // an opaque callee has no operation on the objects a bookkeeping ghost describes
				}
				if key == "*" || key == p || strings.HasPrefix(key, p+".") || strings.HasPrefix(key, p+"#") {
					excepted = true
				}
				if strings.HasPrefix(key, "*world:") {
					// a callee that modifies the world except its own list: every prefix this function
					// must leave alone has to be on the callee's list too. Bookkeeping ghosts only change
					// through contracts that name them (a callee that does is checked under the ghost's
					// own key), so a ghost exception asks nothing of a callee's world clause.
					if strings.HasPrefix(p, "ghost:") {
						continue
					}
					on := false
					for _, q := range strings.Split(strings.TrimPrefix(key, "*world:"), ",") {
						if q != "" && (q == p || strings.HasPrefix(p, q+".")) {
							on = true
						}
					}
					if !on {
						excepted = true
					}
				}
			}
			if !excepted {
				return
			}
			continue
		}
		match := key == f.Key || (f.Prefix && (strings.HasPrefix(key, f.Key+".") || strings.HasPrefix(key, f.Key+"#")))
		if !match {
			continue
		}
		cond := "true"
		if f.Root != "" {
			cond = fmt.Sprintf("(= %s %s)", root, f.Root)
		}
		if f.Lo != "" && idx != "" {
			cond = and(cond, fmt.Sprintf("(<= %s %s)", f.Lo, idx))
		}
		if f.Hi != "" && idx != "" {
			cond = and(cond, fmt.Sprintf("(< %s %s)", idx, f.Hi))
		}
		alts = append(alts, cond)
	}
	goal := or(alts...)
	var pos token.Pos
	if ins != nil {
		pos = ins.Pos()
	}
	sk := "entry"
	if ins != nil {
		sk = x.fx.siteKey(ins, "")
	}
	x.eng.oblige(x.fx, st, "frame", sk+":"+key, goal, "write to "+what+" must be covered by the modifies clause (or hit a fresh object)", pos)
}

// dynArg evaluates the argument of a `dyn(x).*` location (the object held by interface x).
func dynArg(sc *SpecCtx, loc string) (Value, bool) {
	i := strings.Index(loc, "(")
	j := strings.LastIndex(loc, ")")
	if i < 0 || j < i {
		return Value{}, false
	}
	e, err := ParseExpr(loc[i+1 : j])
	if err != nil {
		return Value{}, false
	}
	return sc.eval(e), true
}
