package main

import (
	"fmt"
	"go/ast"
	"go/token"
	"go/types"
	"math"
	"os"
	"sort"
	"strconv"
	"strings"
	"sync"

	"golang.org/x/tools/go/packages"
	"golang.org/x/tools/go/ssa"
)

type VC struct {
	Owner string
	Decls []string
	Hyps  []string
	Goal  string
	Trace string
	// results
	Result    string // unsat | sat | unknown | timeout | error
	Solver    string
	Ms        int64
	Model     string
	Output    string
	Candidate bool
}

type Obligation struct {
	Name  string
	Class string
	Func  string
	Pos   string
	Desc  string
	VCs   []*VC
	Cover bool // a cover obligation must be SAT
}

type Engine struct {
	prog          *ssa.Program
	fset          *token.FileSet
	pkgs          map[string]*ssa.Package
	cs            *Contracts
	heapSorts     map[string]heapSort
	mu            sync.Mutex
	obls          map[string]*Obligation
	oblOrder      []string
	srcCache      map[string][]string
	strLits       map[string]string
	funcsDone     []string
	unsup         map[string][]string // function -> unsupported notes
	maxPaths      int
	verbose       bool
	usedExt       map[string]bool
	typeIDs       map[string]int
	unknownCalls  map[string]bool
	goSites       map[string][]*ssa.Go
	forms         []rawForm
	rebound       map[string]string
	lemmaSelf     map[string]string
	implCache     map[string][]string
	assumedPosts  map[string]bool // lemma obligation owner -> its own axiom text (excluded from its own proof)
	nonNilGlobals map[string]bool
	loaded        []*packages.Package
	declared      map[string]bool
	assumptions   []string
	fieldWriters  map[string]map[string]map[*ssa.Function]bool
	inferClosures bool                   // Houdini-style closure precondition inference (see closureInfer)
	autoPre       map[string][]*autoCand // closure -> candidate facts over its immutable captured cells
	inferredUsed  map[string]bool
	objInvUsed    map[string]*FuncContract // object-invariant preconditions assumed at call sites outside the declaring package
	poolAllocs    map[*ssa.Function]bool
	mutGlobals    map[*ssa.Global]bool
	inferLoops    bool                      // Houdini-style loop invariant inference for integer loop counters
	autoInv       map[string][]*autoInvCand // function -> candidate invariants
	trialRound    int
}

type FuncExec struct {
	eng            *Engine
	fn             *ssa.Function
	contract       *FuncContract
	name           string
	headers        map[*ssa.BasicBlock]int
	loopBody       map[*ssa.BasicBlock]map[*ssa.BasicBlock]bool
	counter        int
	modKeys        map[string]bool
	modAll         bool
	havocGens      map[string]bool
	canaryCount    map[string]int
	localCellsDone bool
	localCellList  []*ssa.Alloc
	unescDone      bool
	unescList      []*ssa.Alloc
	paths          int
	siteOrd        map[ssa.Instruction]string
	sweep          bool // no contract: panic-class obligations only
	trial          bool // invariant-inference run: only "infer" obligations are recorded
	idom           map[*ssa.BasicBlock]*ssa.BasicBlock
	assertAnchor   map[ssa.Instruction][]*AssertAt
	anchorOrd      map[ssa.Instruction]int
	ghostAnchor    map[ssa.Instruction][]*GhostSet
}

func (fx *FuncExec) modified(key string) bool {
	if fx.modAll {
		return true
	}
	for p := range fx.modKeys {
		if key == p || strings.HasPrefix(key, p+".") || strings.HasPrefix(key, p+"#") || (p == "ghost" && strings.HasPrefix(key, "ghost:")) {
			return true
		}
	}
	return false
}

// touches reports whether any key the function may write overlaps the key prefix p.
func (fx *FuncExec) touches(p string) bool {
	if fx.modAll {
		return true
	}
	for k := range fx.modKeys {
		if k == p || strings.HasPrefix(k, p+".") || strings.HasPrefix(k, p+"#") || strings.HasPrefix(p, k+".") || strings.HasPrefix(p, k+"#") {
			return true
		}
	}
	return false
}

func funcFullName(fn *ssa.Function) string {
	if fn.Pkg != nil {
		return fn.Pkg.Pkg.Path() + "." + fn.RelString(fn.Pkg.Pkg)
	}
	// synthetic / generic instance / method of external type
	if o := fn.Origin(); o != nil && o.Pkg != nil {
		return o.Pkg.Pkg.Path() + "." + fn.RelString(o.Pkg.Pkg)
	}
	if fn.Object() != nil && fn.Object().Pkg() != nil {
		return fn.Object().Pkg().Path() + "." + fn.RelString(fn.Object().Pkg())
	}
	return fn.String()
}

func (e *Engine) srcLine(pos token.Pos) (string, string) {
	if !pos.IsValid() {
		return "", ""
	}
	p := e.fset.Position(pos)
	lines, ok := e.srcCache[p.Filename]
	if !ok {
		data, err := os.ReadFile(p.Filename)
		if err == nil {
			lines = strings.Split(string(data), "\n")
		}
		e.srcCache[p.Filename] = lines
	}
	txt := ""
	if p.Line-1 < len(lines) && p.Line >= 1 {
		txt = strings.TrimSpace(lines[p.Line-1])
	}
	if len(txt) > 70 {
		txt = txt[:70]
	}
	return txt, fmt.Sprintf("%s:%d", p.Filename, p.Line)
}

// findLoops computes loop headers (targets of DFS back edges) and natural loop bodies.
func (fx *FuncExec) findLoops() {
	fn := fx.fn
	fx.headers = map[*ssa.BasicBlock]int{}
	fx.loopBody = map[*ssa.BasicBlock]map[*ssa.BasicBlock]bool{}
	if len(fn.Blocks) == 0 {
		return
	}
	state := map[*ssa.BasicBlock]int{}
	type edge struct{ from, to *ssa.BasicBlock }
	var back []edge
	var dfs func(b *ssa.BasicBlock)
	dfs = func(b *ssa.BasicBlock) {
		state[b] = 1
		for _, s := range b.Succs {
			if state[s] == 0 {
				dfs(s)
			} else if state[s] == 1 {
				back = append(back, edge{b, s})
			}
		}
		state[b] = 2
	}
	dfs(fn.Blocks[0])
	var hs []*ssa.BasicBlock
	for _, e := range back {
		if fx.loopBody[e.to] == nil {
			fx.loopBody[e.to] = map[*ssa.BasicBlock]bool{e.to: true}
			hs = append(hs, e.to)
		}
		// natural loop: all blocks that reach e.from without passing e.to
		body := fx.loopBody[e.to]
		var stack []*ssa.BasicBlock
		if !body[e.from] {
			body[e.from] = true
			stack = append(stack, e.from)
		}
		for len(stack) > 0 {
			b := stack[len(stack)-1]
			stack = stack[:len(stack)-1]
			for _, p := range b.Preds {
				if !body[p] {
					body[p] = true
					stack = append(stack, p)
				}
			}
		}
	}
	sort.Slice(hs, func(i, j int) bool { return hs[i].Index < hs[j].Index })
	for i, h := range hs {
		fx.headers[h] = i + 1
	}
}

func (e *Engine) oblige(fx *FuncExec, st *State, class, key, goal, desc string, pos token.Pos) {
	if goal == "true" {
		// still register the obligation as trivially discharged
	}
	if fx.trial && class != "infer" {
		return
	}
	name := fx.name + "/" + class + "/" + key
	_, where := e.srcLine(pos)
	e.mu.Lock()
	ob := e.obls[name]
	if ob == nil {
		ob = &Obligation{Name: name, Class: class, Func: fx.name, Pos: where, Desc: desc}
		e.obls[name] = ob
		e.oblOrder = append(e.oblOrder, name)
	}
	vc := &VC{Owner: fx.name, Decls: append([]string(nil), st.decls...), Hyps: append([]string(nil), st.pc...), Goal: goal, Trace: fmt.Sprint(st.trace)}
	if goal == "true" {
		vc.Result = "unsat"
		vc.Solver = "trivial"
	}
	if class == "table" && goal == "false" {
		vc.Result = "sat"
		vc.Solver = "ground"
		vc.Output = desc
	}
	ob.VCs = append(ob.VCs, vc)
	e.mu.Unlock()
}

// siteKey names an instruction site by its source line text plus an ordinal among equal texts.
func (fx *FuncExec) siteKey(ins ssa.Instruction, extra string) string {
	if fx.siteOrd == nil {
		fx.siteOrd = map[ssa.Instruction]string{}
		counts := map[string]int{}
		var visit func(fn *ssa.Function)
		visit = func(fn *ssa.Function) {
			for _, b := range fn.Blocks {
				for _, i := range b.Instrs {
					txt, _ := fx.eng.srcLine(i.Pos())
					if txt == "" {
						txt = "?"
					}
					k := fmt.Sprintf("%T|%s", i, txt)
					counts[k]++
					fx.siteOrd[i] = fmt.Sprintf("%s#%d", txt, counts[k])
				}
			}
		}
		visit(fx.fn)
	}
	s, ok := fx.siteOrd[ins]
	if !ok {
		// instruction of an inlined callee
		txt, _ := fx.eng.srcLine(ins.Pos())
		s = "inl:" + ins.Parent().Name() + ":" + txt
	}
	if extra != "" {
		return extra + ":" + s
	}
	return s
}

type Ret struct {
	st   *State
	vals []Value
}

type Exec struct {
	eng *Engine
	fx  *FuncExec
	// callee of the contract call being applied (nil: interface method, func value or body-less
	// extern) — decides which private types a `world` frame leaves alone
	curCallee *ssa.Function
}

// verifyFunction generates all obligations of one function.
func (e *Engine) verifyFunction(fn *ssa.Function, sweep bool) (err error) {
	return e.verifyFunctionT(fn, sweep, false)
}

func (e *Engine) verifyFunctionT(fn *ssa.Function, sweep bool, trial bool) (err error) {
	name := funcFullName(fn)
	fx := &FuncExec{eng: e, fn: fn, name: name, modKeys: map[string]bool{}, havocGens: map[string]bool{}, sweep: sweep, trial: trial}
	fx.contract = e.cs.Funcs[name]
	if fx.contract == nil {
		if o := fn.Origin(); o != nil {
			fx.contract = e.cs.Funcs[funcFullName(o)] // instance of a generic function: the origin's contract
		}
	}
	if fx.contract != nil {
		fx.contract.Used = true
		if fx.contract.Trusted {
			return nil
		}
	}
	if len(fn.Blocks) == 0 {
		return fmt.Errorf("%s: no body", name)
	}
	fx.findLoops()
	fx.scanMods(fn, 0, map[*ssa.Function]bool{})
	if fx.contract != nil {
		for _, gs := range fx.contract.GhostSets {
			if gs.Ghost != "" {
				fx.modKeys["ghost:"+gs.Ghost] = true
			}
			for _, hk := range gs.HavocKeys {
				fx.modKeys[hk] = true
			}
		}
	}
	x := &Exec{eng: e, fx: fx}
	defer func() {
		if r := recover(); r != nil {
			if u, ok := r.(unsupportedErr); ok {
				if !trial {
					e.mu.Lock()
					e.unsup[name] = append(e.unsup[name], u.msg)
					e.mu.Unlock()
				}
				return
			}
			panic(r)
		}
	}()
	if !trial {
		e.mu.Lock()
		e.funcsDone = append(e.funcsDone, name)
		e.mu.Unlock()
	}

	// entry path
	st := x.entryState(nil)
	x.startWalk(st, fn.Blocks[0], nil)
	// cut-point paths
	var hs []*ssa.BasicBlock
	for h := range fx.headers {
		hs = append(hs, h)
	}
	sort.Slice(hs, func(i, j int) bool { return hs[i].Index < hs[j].Index })
	for _, h := range hs {
		st := x.entryState(h)
		x.startWalk(st, h, nil)
	}
	return nil
}

func (x *Exec) startWalk(st *State, b *ssa.BasicBlock, prev *ssa.BasicBlock) {
	defer func() {
		if r := recover(); r != nil {
			if u, ok := r.(unsupportedErr); ok {
				x.eng.mu.Lock()
				x.eng.unsup[x.fx.name] = append(x.eng.unsup[x.fx.name], u.msg)
				x.eng.mu.Unlock()
				return
			}
			panic(r)
		}
	}()
	rets := x.walk(st, x.fx.fn, b, 0, prev, true)
	for _, r := range rets {
		x.checkPost(r)
	}
}

// entryState builds the symbolic state at function entry (cut == nil) or at a loop header.
func (x *Exec) entryState(cut *ssa.BasicBlock) *State {
	fx := x.fx
	fn := fx.fn
	st := &State{fx: fx, declSet: map[string]bool{}, pcSet: map[string]bool{}, env: map[ssa.Value]Value{}, ghostV: map[string]Value{}}
	st.heap = &HeapView{m: map[string]string{}, base: "0"}
	st.old = &HeapView{m: map[string]string{}, base: "0"}
	st.declare("|brk0|", "Int")
	st.assume("(> |brk0| 0)")
	st.brk = "|brk0|"
	for _, p := range fn.Params {
		st.env[p] = st.named(p.Type(), "p:"+p.Name())
		st.assumeNonNil(st.env[p])
	}
	for _, fv := range fn.FreeVars {
		st.env[fv] = st.named(fv.Type(), "fv:"+fv.Name())
		if constCell(fv) {
			st.markConst(st.env[fv].T)
		}
	}
	x.assumeGlobalInv(st)
	// captured variables are addresses of cells: never nil
	for _, fv := range fn.FreeVars {
		if v := st.env[fv]; v.K == VRef {
			st.assume("(not (= " + v.T + " 0))")
		}
	}
	// pointer receivers are assumed non-nil (listed assumption); call sites carry the obligation
	if fn.Signature.Recv() != nil && len(fn.Params) > 0 {
		if v := st.env[fn.Params[0]]; v.K == VRef {
			st.assume("(not (= " + v.T + " 0))")
		}
	}
	// requires (over the entry heap)
	if c := fx.contract; c != nil {
		sc := x.specCtx(st, st.old, st.old, x.paramNames(st, c))
		for _, r := range c.Requires {
			v := sc.evalHyp(r.E)
			st.assume(v)
		}
	}
	x.assumeInferred(st)
	x.buildFrame(st)
	if cut == nil {
		x.eng.oblige(fx, st, "canary", "entry", "false", "vacuity canary: requires + axioms must be satisfiable", fn.Pos())
	}
	if cut != nil {
		st.cutFrom = cut
		st.heap = &HeapView{m: map[string]string{}, base: fmt.Sprintf("cut%d", cut.Index)}
		st.declare("|brk:cut|", "Int")
		st.assume("(>= |brk:cut| |brk0|)")
		st.brk = "|brk:cut|"
		// phis of the header get fresh values
		for _, ins := range cut.Instrs {
			phi, ok := ins.(*ssa.Phi)
			if !ok {
				break
			}
			nm := phi.Comment
			if nm == "" {
				nm = phi.Name()
			}
			st.env[phi] = st.named(phi.Type(), "phi:"+nm+"@"+phi.Name())
			if isVarCellPhi(phi) {
				st.assume("(not (= " + st.env[phi].T + " 0))")
			}
		}
		// parameters spilled to never-reassigned cells (captured by closures) still hold the parameter
		for _, b := range fn.Blocks {
			if !b.Dominates(cut) {
				continue
			}
			for _, ins := range b.Instrs {
				if a, ok := ins.(*ssa.Alloc); ok && (spilledParam(a) || constCell(a) || fx.singleStoreBefore(a, cut)) {
					for _, r := range *a.Referrers() {
						if sto, ok := r.(*ssa.Store); ok && sto.Addr == a {
							ref := x.get(st, a)
							pt := a.Type().(*types.Pointer).Elem()
							func() {
								defer func() {
									if r := recover(); r != nil {
										if _, ok := r.(unsupportedErr); !ok {
											panic(r)
										}
									}
								}()
								st.storeAt(Addr{Root: ref.T, Key: rootKey(pt), Ty: pt}, x.get(st, sto.Val))
							}()
						}
					}
				}
			}
		}
		// deferred calls registered on the way to the header (outside every loop) are still pending
		var chain []*ssa.BasicBlock
		for d := cut.Idom(); d != nil; d = d.Idom() {
			chain = append(chain, d)
		}
		for i := len(chain) - 1; i >= 0; i-- {
			b := chain[i]
			inLoop := false
			for _, body := range fx.loopBody {
				if body[b] {
					inLoop = true
				}
			}
			for _, ins := range b.Instrs {
				d, ok := ins.(*ssa.Defer)
				if !ok {
					continue
				}
				if inLoop {
					st.unsupported("defer inside a loop before a cut point")
				}
				var args []Value
				for _, a := range d.Call.Args {
					args = append(args, x.get(st, a))
				}
				st.defers = append(st.defers, deferred{call: d, args: args, fn: x.get(st, d.Call.Value)})
			}
		}
		// branch conditions on the dominator chain whose edge dominates the header still hold
		x.assumeDominatingGuards(st, cut)
		x.assumeGlobalInv(st)
		// go/ssa's range-over-slice index starts at -1 and only ever increments below len
		for _, ins := range cut.Instrs {
			if phi, ok := ins.(*ssa.Phi); ok && phi.Comment == "rangeindex" {
				st.assume("(and (>= " + st.env[phi].T + " (- 1)) (< " + st.env[phi].T + " 4611686018427387904))")
			}
		}
		// assume invariants
		x.assumeAutoInv(st, cut)
		ord := fx.headers[cut]
		if c := fx.contract; c != nil {
			if ls := c.Loops[ord]; ls != nil {
				sc := x.loopSpecCtx(st, cut, nil)
				for _, inv := range ls.Invs {
					st.assume(sc.evalHyp(inv.E))
				}
				if ls.Decr != nil {
					st.ghostV["decr0"] = sc.eval(ls.Decr.E)
				}
				x.eng.oblige(fx, st, "canary", fmt.Sprintf("loop%d", ord), "false", "vacuity canary: invariants must be satisfiable", cut.Instrs[0].Pos())
			}
		}
	}
	return st
}

// paramNames binds contract parameter names to the function's own parameter values.
func (x *Exec) paramNames(st *State, c *FuncContract) map[string]Value {
	fn := x.fx.fn
	m := map[string]Value{}
	for i, p := range fn.Params {
		m[p.Name()] = st.env[p]
		if c != nil && i < len(c.Params) {
			m[c.Params[i]] = st.env[p]
		}
	}
	for _, fv := range fn.FreeVars {
		m[fv.Name()] = st.env[fv]
	}
	return m
}

// checkPost emits the postcondition obligations for one returning path.
func (x *Exec) checkPost(r Ret) {
	fx := x.fx
	c := fx.contract
	if c == nil {
		return
	}
	st := r.st
	names := x.paramNames(st, c)
	res := fx.fn.Signature.Results()
	for i := 0; i < res.Len() && i < len(r.vals); i++ {
		names[fmt.Sprintf("result%d", i)] = r.vals[i]
		if res.At(i).Name() != "" && res.At(i).Name() != "_" {
			names[res.At(i).Name()] = r.vals[i]
		}
		if i < len(c.Results) {
			names[c.Results[i]] = r.vals[i]
		}
	}
	if len(r.vals) == 1 {
		names["result"] = r.vals[0]
	}
	sc := x.specCtx(st, st.heap, st.old, names)
	x.applyGhostSets(st, c, sc)
	k := 0
	for _, en := range c.Ensures {
		if strings.HasPrefix(en.Tag, "assumed") {
			// the stated meaning of a primitive (e.g. of terminal output): not provable from the
			// body, assumed at call sites and listed as an assumption
			x.eng.mu.Lock()
			x.eng.assumedPosts[fx.name+": "+en.Text] = true
			x.eng.mu.Unlock()
			continue
		}
		for _, cj := range x.eng.cs.goals(en.E) {
			k++
			g := sc.evalBool(cj)
			key := fmt.Sprintf("post#%d", k)
			if en.Tag != "" {
				key = fmt.Sprintf("post#%d[%s]", k, en.Tag)
			}
			x.eng.oblige(fx, st, "post", key, g, cj.String(), fx.fn.Pos())
		}
	}
}

// walk executes instructions of block b starting at index i and follows control flow.
// It returns the states at function return (with return values).
func (x *Exec) walk(st *State, fn *ssa.Function, b *ssa.BasicBlock, i int, prev *ssa.BasicBlock, top bool) []Ret {
	fx := x.fx
	if i == 0 {
		if top {
			st.trace = append(st.trace, b.Index)
		}
		// phis
		if prev != nil {
			var idx = -1
			for k, p := range b.Preds {
				if p == prev {
					idx = k
					break
				}
			}
			vals := map[*ssa.Phi]Value{}
			for _, ins := range b.Instrs {
				phi, ok := ins.(*ssa.Phi)
				if !ok {
					break
				}
				vals[phi] = x.get(st, phi.Edges[idx])
			}
			for p, v := range vals {
				st.env[p] = v
			}
		}
	}
	for ; i < len(b.Instrs); i++ {
		ins := b.Instrs[i]
		if top && fx.contract != nil && (len(fx.contract.Asserts) > 0 || fx.hasAnchoredGhost()) {
			x.checkAsserts(st, b, ins)
		}
		switch ins := ins.(type) {
		case *ssa.Phi:
			continue
		case *ssa.DebugRef:
			continue
		case *ssa.If:
			c := x.get(st, ins.Cond)
			var rets []Ret
			t, f := b.Succs[0], b.Succs[1]
			if c.T == "true" {
				return x.enter(st, fn, b, t, top)
			}
			if c.T == "false" {
				return x.enter(st, fn, b, f, top)
			}
			fx.paths++
			if fx.paths > x.eng.maxPaths {
				st.unsupported(fmt.Sprintf("path cap %d exceeded", x.eng.maxPaths))
			}
			st2 := st.clone()
			st.assume(c.T)
			st2.assume(not(c.T))
			rets = append(rets, x.enter(st, fn, b, t, top)...)
			rets = append(rets, x.enter(st2, fn, b, f, top)...)
			return rets
		case *ssa.Jump:
			return x.enter(st, fn, b, b.Succs[0], top)
		case *ssa.Return:
			var vals []Value
			for _, r := range ins.Results {
				vals = append(vals, x.get(st, r))
			}
			return []Ret{{st, vals}}
		case *ssa.Panic:
			// explicit panic: the path must be infeasible
			desc := "explicit panic reachable"
			x.eng.oblige(fx, st, "unreachable", fx.siteKey(ins, ""), "false", desc, ins.Pos())
			return nil
		default:
			succ := x.step(st, fn, ins, top)
			if len(succ) == 0 {
				return nil
			}
			if len(succ) == 1 && succ[0] == st {
				continue
			}
			var rets []Ret
			for _, s := range succ {
				rets = append(rets, x.walk(s, fn, b, i+1, prev, top)...)
			}
			return rets
		}
	}
	return nil
}

// enter follows the edge from -> to. Loop headers of the top-level function are cut points.
func (x *Exec) enter(st *State, fn *ssa.Function, from, to *ssa.BasicBlock, top bool) []Ret {
	fx := x.fx
	if top {
		if ord, isHdr := fx.headers[to]; isHdr {
			x.checkInvariants(st, from, to, ord)
			return nil
		}
	}
	return x.walk(st, fn, to, 0, from, top)
}

func (x *Exec) checkInvariants(st *State, from, hdr *ssa.BasicBlock, ord int) {
	fx := x.fx
	c := fx.contract
	inLoop := fx.loopBody[hdr][from]
	// evaluate incoming phi values
	idx := -1
	for k, p := range hdr.Preds {
		if p == from {
			idx = k
		}
	}
	phiVals := map[*ssa.Phi]Value{}
	for _, ins := range hdr.Instrs {
		phi, ok := ins.(*ssa.Phi)
		if !ok {
			break
		}
		phiVals[phi] = x.get(st, phi.Edges[idx])
	}
	x.checkAutoInv(st, hdr, ord, inLoop, phiVals)
	if c == nil {
		return
	}
	ls := c.Loops[ord]
	if ls == nil {
		return
	}
	sc := x.loopSpecCtx(st, hdr, phiVals)
	phase := "init"
	if inLoop {
		phase = "pres"
	}
	k := 0
	for _, inv := range ls.Invs {
		for _, cj := range x.eng.cs.goals(inv.E) {
			k++
			g := sc.evalBool(cj)
			key := fmt.Sprintf("loop%d.inv#%d.%s", ord, k, phase)
			if inv.Tag != "" {
				key = fmt.Sprintf("loop%d.inv#%d[%s].%s", ord, k, inv.Tag, phase)
			}
			x.eng.oblige(fx, st, "inv", key, g, cj.String(), hdr.Instrs[0].Pos())
		}
	}
	if ls.Decr != nil && inLoop && st.cutFrom == hdr {
		// variant: value at path start (stored at cut) must be > value now and >= 0 at start
		if d0, ok := st.ghostV["decr0"]; ok {
			d1 := sc.eval(ls.Decr.E)
			x.eng.oblige(fx, st, "dec", fmt.Sprintf("loop%d.decreases", ord), fmt.Sprintf("(and (< %s %s) (>= %s 0))", d1.T, d0.T, d0.T), ls.Decr.Text, hdr.Instrs[0].Pos())
		}
	}
}

// loopSpecCtx builds the name environment for invariants of header hdr. phiVals == nil means
// "use the state's own phi values" (path start).
func (x *Exec) loopSpecCtx(st *State, hdr *ssa.BasicBlock, phiVals map[*ssa.Phi]Value) *SpecCtx {
	names := x.paramNames(st, x.fx.contract)
	sc := x.specCtx(st, st.heap, st.old, names)
	sc.resolver = func(name string) (Value, bool) {
		if name == "$rangelen" {
			// length of the slice a range loop iterates over (fixed when the loop starts)
			if iff, ok := hdr.Instrs[len(hdr.Instrs)-1].(*ssa.If); ok {
				if b, ok := iff.Cond.(*ssa.BinOp); ok && b.Op == token.LSS {
					return x.get(st, b.Y), true
				}
			}
			return Value{}, false
		}
		if name == "$rangeslice" {
			// the slice value a range loop iterates over (evaluated once, before the loop)
			if iff, ok := hdr.Instrs[len(hdr.Instrs)-1].(*ssa.If); ok {
				if b, ok := iff.Cond.(*ssa.BinOp); ok && b.Op == token.LSS {
					if c, ok := b.Y.(*ssa.Call); ok && len(c.Call.Args) == 1 {
						if bi, ok := c.Call.Value.(*ssa.Builtin); ok && bi.Name() == "len" {
							return x.get(st, c.Call.Args[0]), true
						}
					}
				}
			}
			return Value{}, false
		}
		if name == "$rangepos" {
			for _, ins := range hdr.Instrs {
				if nx, ok := ins.(*ssa.Next); ok {
					return x.get(st, nx.Iter), true
				}
			}
			return Value{}, false
		}
		// phi of this header
		for _, ins := range hdr.Instrs {
			phi, ok := ins.(*ssa.Phi)
			if !ok {
				break
			}
			if phi.Comment == name {
				v := st.env[phi]
				if phiVals != nil {
					v = phiVals[phi]
				}
				if isVarCellPhi(phi) {
					// Go 1.22 per-iteration loop variable: the phi ranges over the variable's cells
					pt := phi.Type().(*types.Pointer).Elem()
					return st.loadAt(Addr{Root: v.T, Key: rootKey(pt), Ty: pt}), true
				}
				return v, true
			}
		}
		return x.lookupLocal(st, name, hdr)
	}
	return sc
}

// lookupLocal finds a local variable by source name among values whose block dominates at.
func (x *Exec) lookupLocal(st *State, name string, at *ssa.BasicBlock) (Value, bool) {
	return x.lookupLocalBefore(st, name, at, nil)
}

// lookupLocalBefore resolves a source-level variable name to its SSA value as of the point just
// before instruction `before` of block `at` (the whole block when before is nil).
func (x *Exec) lookupLocalBefore(st *State, name string, at *ssa.BasicBlock, before ssa.Instruction) (Value, bool) {
	fn := x.fx.fn
	// a captured variable is always named by its cell (write *v for its value), wherever the
	// contract clause is evaluated
	for _, fv := range fn.FreeVars {
		if fv.Name() == name {
			return st.env[fv], true
		}
	}
	if strings.HasPrefix(name, "&") {
		for _, b := range fn.Blocks {
			if !(b == at || b.Dominates(at)) {
				continue
			}
			for _, ins := range b.Instrs {
				if a, ok := ins.(*ssa.Alloc); ok && a.Comment == name[1:] {
					return x.get(st, a), true
				}
			}
		}
		return Value{}, false
	}
	var best ssa.Value
	bestIsValue := false // best is the variable's value (x := &T{..} names the pointer, not a cell)
	// dominators of `at` in execution order (entry first)
	var chain []*ssa.BasicBlock
	for d := at; d != nil; d = d.Idom() {
		chain = append([]*ssa.BasicBlock{d}, chain...)
	}
	for _, b := range chain {
		for _, ins := range b.Instrs {
			if b == at && before != nil && ins == before {
				break
			}
			switch v := ins.(type) {
			case *ssa.Phi:
				if v.Comment == name && (b != at || before != nil) {
					best = v
					bestIsValue = false
				}
			case *ssa.Alloc:
				if v.Comment == name && !spilledParam(v) {
					best = v
					bestIsValue = false
				}
			case *ssa.DebugRef:
				if id, ok := v.Expr.(*ast.Ident); ok && id.Name == name && !v.IsAddr {
					if _, isPhi := v.X.(*ssa.Phi); isPhi && v.X.(*ssa.Phi).Block() == at && before == nil {
						continue
					}
					if u, isLoad := v.X.(*ssa.UnOp); isLoad && u.Op == token.MUL {
						if a, isAlloc := u.X.(*ssa.Alloc); isAlloc && spilledParam(a) {
							continue // a read of a never-reassigned parameter: the parameter itself
						}
						if a, isAlloc := u.X.(*ssa.Alloc); isAlloc && a.Comment == name {
							// a read of a variable that lives in memory (captured by a closure, address
							// taken): the name denotes the cell's current content, not this earlier load
							best = a
							bestIsValue = false
							continue
						}
					}
					if _, isParam := v.X.(*ssa.Parameter); isParam {
						continue
					}
					if a, isAlloc := best.(*ssa.Alloc); isAlloc && !bestIsValue && a.Comment == name && storedInto(a, v.X) {
						// the value just stored into the variable's own cell: the name keeps denoting the
						// cell (its content is what later instructions read and what a cut point
						// forgets), not this one stored value
						continue
					}
					best = v.X
					bestIsValue = true
				}
			}
		}
	}
	if best == nil {
		return Value{}, false
	}
	val := x.get(st, best)
	if a, ok := best.(*ssa.Alloc); ok && !bestIsValue {
		pt := a.Type().(*types.Pointer).Elem()
		return st.loadAt(Addr{Root: val.T, Key: rootKey(pt), Ty: pt}), true
	}
	return val, true
}

// storedInto reports whether value v is stored into the cell a by some instruction.
func storedInto(a *ssa.Alloc, v ssa.Value) bool {
	refs := a.Referrers()
	if refs == nil {
		return false
	}
	for _, r := range *refs {
		if s, ok := r.(*ssa.Store); ok && s.Addr == a && s.Val == v {
			return true
		}
	}
	return false
}

// assumeDominatingGuards adds, at a cut point, the conditions of all conditional branches whose
// taken edge dominates the header (SSA values are immutable, so the condition still holds).
func (x *Exec) assumeDominatingGuards(st *State, hdr *ssa.BasicBlock) {
	for d := hdr.Idom(); d != nil; d = d.Idom() {
		if len(d.Instrs) == 0 {
			continue
		}
		iff, ok := d.Instrs[len(d.Instrs)-1].(*ssa.If)
		if !ok {
			continue
		}
		s0, s1 := d.Succs[0], d.Succs[1]
		dom0 := (s0 == hdr || s0.Dominates(hdr)) && len(s0.Preds) == 1
		dom1 := (s1 == hdr || s1.Dominates(hdr)) && len(s1.Preds) == 1
		if dom0 == dom1 {
			continue
		}
		func() {
			defer func() {
				if r := recover(); r != nil {
					if _, ok := r.(unsupportedErr); ok {
						return
					}
					panic(r)
				}
			}()
			c := x.get(st, iff.Cond)
			if c.K != VBool {
				return
			}
			if dom0 {
				st.assume(c.T)
			} else {
				st.assume(not(c.T))
			}
		}()
	}
}

// assumeGlobalInv assumes the package's declared invariants over init-only package variables
// (each is justified by a table obligation over the initialiser, see tables.go).
func (x *Exec) assumeGlobalInv(st *State) {
	fn := x.fx.fn
	if fn == nil {
		return
	}
	pkg := ""
	if fn.Pkg != nil {
		pkg = fn.Pkg.Pkg.Path()
	} else if o := fn.Origin(); o != nil && o.Pkg != nil {
		pkg = o.Pkg.Pkg.Path()
	}
	for _, c := range x.eng.cs.GlobalInv[pkg] {
		sc := x.specCtx(st, st.heap, st.old, map[string]Value{})
		st.assume(sc.evalHyp(c.E))
	}
}

// spilledParam reports whether an Alloc is just the home of a parameter that is never
// reassigned (exactly one store, of the parameter itself): its value is the parameter.
func spilledParam(a *ssa.Alloc) bool {
	refs := a.Referrers()
	if refs == nil {
		return false
	}
	stores := 0
	isParam := false
	for _, r := range *refs {
		if st, ok := r.(*ssa.Store); ok && st.Addr == a {
			stores++
			_, isParam = st.Val.(*ssa.Parameter)
		}
	}
	if stores != 1 || !isParam {
		return false
	}
	// captured by a closure that may write it?
	for _, r := range *refs {
		if mc, ok := r.(*ssa.MakeClosure); ok {
			f := mc.Fn.(*ssa.Function)
			for i, b := range mc.Bindings {
				if b == a && i < len(f.FreeVars) {
					if fr := f.FreeVars[i].Referrers(); fr != nil {
						for _, u := range *fr {
							if s2, ok := u.(*ssa.Store); ok && s2.Addr == f.FreeVars[i] {
								return false
							}
						}
					}
				}
			}
		}
	}
	return true
}

// isVarCellPhi: a pointer-typed phi all of whose inputs are the cells of one source variable
// (the per-iteration copies of a loop variable captured by a closure).
func isVarCellPhi(phi *ssa.Phi) bool {
	if _, ok := phi.Type().(*types.Pointer); !ok || phi.Comment == "" {
		return false
	}
	for _, e := range phi.Edges {
		a, ok := e.(*ssa.Alloc)
		if !ok || a.Comment != phi.Comment {
			return false
		}
	}
	return true
}

// checkAsserts proves the inline assertions anchored at the source line of ins (once per line:
// at the first instruction of that line in the function).
func (x *Exec) checkAsserts(st *State, b *ssa.BasicBlock, ins ssa.Instruction) {
	fx := x.fx
	if fx.assertAnchor == nil {
		fx.assertAnchor = map[ssa.Instruction][]*AssertAt{}
		fx.ghostAnchor = map[ssa.Instruction][]*GhostSet{}
		find := func(at string, nth int) ssa.Instruction {
			seenLines := map[string]bool{}
			count := 0
			for _, bb := range fx.fn.Blocks {
				for _, in := range bb.Instrs {
					if _, isDbg := in.(*ssa.DebugRef); isDbg {
						continue
					}
					txt, where := fx.eng.srcLineFull(in.Pos())
					if txt == "" || !strings.Contains(txt, at) || seenLines[where] {
						continue
					}
					seenLines[where] = true
					count++
					if nth <= 1 || count == nth {
						if nth <= 1 || count == nth {
							return in
						}
					}
				}
			}
			return nil
		}
		for _, as := range fx.contract.Asserts {
			if as.Nth < 0 {
				// "#*": the assertion holds before every source line containing the text
				n := 0
				for k := 1; ; k++ {
					in := find(as.At, k)
					if in == nil || (k > 1 && in == find(as.At, 1)) {
						break
					}
					fx.assertAnchor[in] = append(fx.assertAnchor[in], as)
					if fx.anchorOrd == nil {
						fx.anchorOrd = map[ssa.Instruction]int{}
					}
					fx.anchorOrd[in] = k
					n++
				}
				if n == 0 {
					fx.eng.mu.Lock()
					fx.eng.unsup[fx.name] = append(fx.eng.unsup[fx.name], "assert anchor not found: "+as.At)
					fx.eng.mu.Unlock()
				}
				continue
			}
			first := find(as.At, as.Nth)
			if first != nil && strings.Contains(as.C.Text, "$ret") {
				// an assertion about the returned value is proved at the return instruction of that line
				_, line := fx.eng.srcLineFull(first.Pos())
				var ret ssa.Instruction
				for _, bb := range fx.fn.Blocks {
					for _, in := range bb.Instrs {
						if r, ok := in.(*ssa.Return); ok {
							if _, l2 := fx.eng.srcLineFull(r.Pos()); l2 == line {
								ret = r
							}
						}
					}
				}
				first = ret
			}
			if first != nil && strings.Contains(as.C.Text, "$arg") {
				// an assertion about the arguments of a call ($arg0, $arg1, ...: for a static method
				// call $arg0 is the receiver) is proved just before that call. Of several calls on the
				// line the one whose name occurs rightmost in the anchor text is meant, else the first.
				_, line := fx.eng.srcLineFull(first.Pos())
				var pick ssa.Instruction
				best := -1
				for _, bb := range fx.fn.Blocks {
					for _, in := range bb.Instrs {
						ci, ok := in.(ssa.CallInstruction)
						if !ok {
							continue
						}
						if _, isB := ci.Common().Value.(*ssa.Builtin); isB {
							continue
						}
						if _, l2 := fx.eng.srcLineFull(in.Pos()); l2 != line {
							continue
						}
						nm := ""
						if ci.Common().IsInvoke() {
							nm = ci.Common().Method.Name()
						} else if f := ci.Common().StaticCallee(); f != nil {
							nm = f.Name()
						}
						at := -1
						if nm != "" {
							at = strings.LastIndex(as.At, nm+"(")
						}
						if pick == nil || at > best {
							if pick == nil || at >= 0 {
								pick, best = in, at
							}
						}
					}
				}
				first = pick
			}
			if first != nil {
				fx.assertAnchor[first] = append(fx.assertAnchor[first], as)
			} else {
				fx.eng.mu.Lock()
				fx.eng.unsup[fx.name] = append(fx.eng.unsup[fx.name], "assert anchor not found: "+as.At)
				fx.eng.mu.Unlock()
			}
		}
		for _, gs := range fx.contract.GhostSets {
			if gs.At == "" {
				continue
			}
			if first := find(gs.At, gs.Nth); first != nil {
				fx.ghostAnchor[first] = append(fx.ghostAnchor[first], gs)
			} else {
				fx.eng.mu.Lock()
				fx.eng.unsup[fx.name] = append(fx.eng.unsup[fx.name], "ghostset anchor not found: "+gs.At)
				fx.eng.mu.Unlock()
			}
		}
	}
	mkCtx := func() *SpecCtx {
		names := x.paramNames(st, fx.contract)
		sc := x.specCtx(st, st.heap, st.old, names)
		sc.resolver = func(name string) (Value, bool) {
			for _, in := range b.Instrs {
				if phi, ok := in.(*ssa.Phi); ok && phi.Comment == name {
					return st.env[phi], true
				}
			}
			if name == "$ret" {
				if r, ok := ins.(*ssa.Return); ok && len(r.Results) >= 1 {
					return x.get(st, r.Results[0]), true
				}
				return Value{}, false
			}
			if strings.HasPrefix(name, "$arg") {
				if ci, ok := ins.(ssa.CallInstruction); ok {
					if k, err := strconv.Atoi(name[4:]); err == nil && k >= 0 && k < len(ci.Common().Args) {
						return x.get(st, ci.Common().Args[k]), true
					}
				}
				return Value{}, false
			}
			return x.lookupLocalBefore(st, name, b, ins)
		}
		return sc
	}
	for _, gs := range fx.ghostAnchor[ins] {
		sc := mkCtx()
		// `old` inside an anchored ghost statement means "just before this statement"
		sc.old = st.heap.clone()
		if gs.Ghost == "" {
			for _, hk := range gs.HavocKeys {
				st.havocPrefix(hk)
			}
			continue
		}
		gd := x.eng.cs.Ghosts[gs.Ghost]
		if gd == nil {
			st.unsupported("ghostset of unknown ghost " + gs.Ghost)
		}
		a := sc.eval(gs.Arg)
		if a.K == VAddr {
			a = Value{K: VRef, T: a.A.Root}
		}
		v := sc.eval(gs.Val)
		sort, _ := ghostSort(gd)
		t := v.T
		if sort == "Real" && v.K == VInt {
			t = "(to_real " + t + ")"
		}
		h := st.heapTermIn(st.heap, "ghost:"+gd.Name, 1, sort)
		st.heapSet("ghost:"+gd.Name, fmt.Sprintf("(store %s %s %s)", h, a.T, t))
	}
	for n, as := range fx.assertAnchor[ins] {
		sc := mkCtx()
		k := 0
		for _, cj := range x.eng.cs.goals(as.C.E) {
			k++
			g := sc.evalBool(cj)
			key := fmt.Sprintf("%s#%d.%d", as.At, n+1, k)
			if as.Nth < 0 {
				// one obligation per anchored line: the line's own text names it
				txt, _ := x.eng.srcLineFull(ins.Pos())
				key = fmt.Sprintf("%s@%d:%s#%d.%d", as.At, fx.anchorOrd[ins], strings.TrimSpace(txt), n+1, k)
			}
			x.eng.oblige(fx, st, "assert", key, g, cj.String(), ins.Pos())
			st.assume(g)
		}
	}
}

func (e *Engine) srcLineFull(pos token.Pos) (string, string) {
	if !pos.IsValid() {
		return "", ""
	}
	p := e.fset.Position(pos)
	lines := e.fileLines(p.Filename)
	if p.Line-1 < len(lines) && p.Line >= 1 {
		return lines[p.Line-1], fmt.Sprintf("%s:%d", p.Filename, p.Line)
	}
	return "", ""
}

func (fx *FuncExec) hasAnchoredGhost() bool {
	if fx.contract == nil {
		return false
	}
	for _, gs := range fx.contract.GhostSets {
		if gs.At != "" {
			return true
		}
	}
	return false
}

// cellUsesConst: every use of cell address v (an Alloc or FreeVar) is a load, a debug ref, or a
// capture by a closure that again only loads it: nobody stores to it and it does not escape.
func cellUsesConst(v ssa.Value, allowStore ssa.Instruction, depth int) bool {
	refs := v.Referrers()
	if refs == nil || depth > 6 {
		return false
	}
	for _, r := range *refs {
		switch u := r.(type) {
		case *ssa.UnOp:
			if u.Op != token.MUL {
				return false
			}
		case *ssa.DebugRef:
		case *ssa.Convert:
			if !cellUsesConst(u, nil, depth+1) {
				return false
			}
		case *ssa.ChangeType:
			if !cellUsesConst(u, nil, depth+1) {
				return false
			}
		case *ssa.Store:
			if u != allowStore || u.Val == v {
				return false
			}
		case *ssa.MakeClosure:
			f := u.Fn.(*ssa.Function)
			for i, b := range u.Bindings {
				if b == v {
					if i >= len(f.FreeVars) || !cellUsesConst(f.FreeVars[i], nil, depth+1) {
						return false
					}
				}
			}
		default:
			return false
		}
	}
	return true
}

// constCell reports whether v is the address of a cell whose content never changes after the
// function that owns it starts: the home of a never-reassigned parameter whose address is only
// loaded from (directly or by closures capturing it). Such a cell is immutable for every
// goroutine, so its content is a function of its identity (ccell_*).
func constCell(v ssa.Value) bool {
	switch a := v.(type) {
	case *ssa.Alloc:
		refs := a.Referrers()
		if refs == nil {
			return false
		}
		var spill *ssa.Store
		for _, r := range *refs {
			if s, ok := r.(*ssa.Store); ok && s.Addr == a {
				if spill != nil {
					return false
				}
				spill = s
			}
		}
		if spill == nil || spill.Block() != a.Block() {
			return false // (same block: the store runs exactly once per allocation of the cell)
		}
		// the single store happens before every other use of the cell
		for _, r := range *refs {
			if r == ssa.Instruction(spill) {
				continue
			}
			if _, ok := r.(*ssa.DebugRef); ok {
				continue
			}
			if r.Block() == spill.Block() {
				if instrIndex(r) < instrIndex(spill) {
					return false
				}
			} else if !spill.Block().Dominates(r.Block()) {
				return false
			}
		}
		return cellUsesConst(a, spill, 0)
	case *ssa.FreeVar:
		f := a.Parent()
		p := f.Parent()
		if p == nil {
			return false
		}
		idx := -1
		for i, fv := range f.FreeVars {
			if fv == a {
				idx = i
			}
		}
		for _, b := range p.Blocks {
			for _, ins := range b.Instrs {
				if mc, ok := ins.(*ssa.MakeClosure); ok && mc.Fn == f && idx >= 0 && idx < len(mc.Bindings) {
					if constCell(mc.Bindings[idx]) {
						return true
					}
					if al, ok := mc.Bindings[idx].(*ssa.Alloc); ok {
						return frozenAtClosure(al, mc)
					}
					return false
				}
			}
		}
	}
	return false
}

func instrIndex(i ssa.Instruction) int {
	for k, j := range i.Block().Instrs {
		if j == i {
			return k
		}
	}
	return -1
}

// localCells: the Allocs of this function whose address is only loaded from, stored to or
// used to address a field/element that is itself only loaded/stored — never passed, stored,
// captured or converted. No other function can reach such a cell.
func (fx *FuncExec) localCells() []*ssa.Alloc {
	if fx.localCellsDone {
		return fx.localCellList
	}
	fx.localCellsDone = true
	if fx.fn == nil {
		return nil
	}
	var ok func(v ssa.Value, depth int) bool
	ok = func(v ssa.Value, depth int) bool {
		refs := v.Referrers()
		if refs == nil || depth > 4 {
			return false
		}
		for _, r := range *refs {
			switch u := r.(type) {
			case *ssa.UnOp:
				if u.Op != token.MUL {
					return false
				}
			case *ssa.DebugRef:
			case *ssa.Store:
				if u.Addr != v {
					return false
				}
			case *ssa.FieldAddr:
				if !ok(u, depth+1) {
					return false
				}
			case *ssa.IndexAddr:
				if !ok(u, depth+1) {
					return false
				}
			default:
				return false
			}
		}
		return true
	}
	for _, b := range fx.fn.Blocks {
		for _, ins := range b.Instrs {
			if a, isA := ins.(*ssa.Alloc); isA && ok(a, 0) {
				if _, isArr := a.Type().(*types.Pointer).Elem().Underlying().(*types.Array); isArr {
					continue
				}
				fx.localCellList = append(fx.localCellList, a)
			}
		}
	}
	return fx.localCellList
}

// singleStoreBefore: a is a local cell (see localCells) with exactly one whole-cell store in the
// function, and that store dominates the loop header without lying in the loop's body: at the
// header the cell still holds the stored value.
func (fx *FuncExec) singleStoreBefore(a *ssa.Alloc, hdr *ssa.BasicBlock) bool {
	isLocal := false
	for _, c := range fx.localCells() {
		if c == a {
			isLocal = true
		}
	}
	if !isLocal {
		return false
	}
	var st *ssa.Store
	var bad bool
	var scan func(v ssa.Value, top bool)
	scan = func(v ssa.Value, top bool) {
		for _, r := range *v.Referrers() {
			switch u := r.(type) {
			case *ssa.Store:
				if !top || st != nil {
					bad = true // a second store, or a store into a field of the cell
				}
				st = u
			case *ssa.FieldAddr:
				scan(u, false)
			case *ssa.IndexAddr:
				scan(u, false)
			}
		}
	}
	scan(a, true)
	if bad || st == nil {
		return false
	}
	if !(st.Block() == hdr.Idom() || st.Block().Dominates(hdr)) || st.Block() == hdr {
		return false
	}
	return !fx.loopBody[hdr][st.Block()]
}

// ---- inferred loop invariants ----------------------------------------------------------------
//
// For an integer loop counter (a phi of a loop header whose values from outside the loop are one
// constant c) the candidates "phi >= c" and "phi <= c" are tried: a trial run of the function
// assumes all live candidates at the header and records, as obligations of class "infer", that
// each holds on entry and is preserved by every path back to the header. Candidates whose
// obligations do not all discharge are dropped and the trial is repeated until none is dropped
// (Houdini); the survivors form an inductive invariant and are assumed in the real run.

type autoInvCand struct {
	Hdr  *ssa.BasicBlock
	Phi  *ssa.Phi
	Op   string // ">=" | "<="
	C    int64
	Text string
	Dead bool
	Obls []string // obligations of the current trial round
}

func (e *Engine) loopCands(fx *FuncExec) []*autoInvCand {
	e.mu.Lock()
	defer e.mu.Unlock()
	if e.autoInv == nil {
		e.autoInv = map[string][]*autoInvCand{}
	}
	if cs, ok := e.autoInv[fx.name]; ok {
		return cs
	}
	var out []*autoInvCand
	var hs []*ssa.BasicBlock
	for h := range fx.headers {
		hs = append(hs, h)
	}
	sort.Slice(hs, func(i, j int) bool { return hs[i].Index < hs[j].Index })
	for _, h := range hs {
		for _, ins := range h.Instrs {
			phi, ok := ins.(*ssa.Phi)
			if !ok {
				break
			}
			if kindOf(phi.Type()) != VInt || isVarCellPhi(phi) || phi.Comment == "rangeindex" {
				continue
			}
			var c0 int64
			have, same := false, true
			for k, p := range h.Preds {
				if fx.loopBody[h][p] {
					continue
				}
				c, ok := constInt(phi.Edges[k])
				if !ok {
					same = false
					break
				}
				if have && c != c0 {
					same = false
				}
				c0, have = c, true
			}
			nm := phi.Comment
			if nm == "" {
				nm = phi.Name()
			}
			// far from wrap-around (inductive for counters bounded by a length)
			const far = 1 << 32
			out = append(out, &autoInvCand{Hdr: h, Phi: phi, Op: "<=", C: math.MaxInt64 - far, Text: fmt.Sprintf("%s <= %d", nm, int64(math.MaxInt64-far))})
			out = append(out, &autoInvCand{Hdr: h, Phi: phi, Op: ">=", C: math.MinInt64 + far, Text: fmt.Sprintf("%s >= %d", nm, int64(math.MinInt64+far))})
			if !have || !same {
				continue
			}
			for _, op := range []string{">=", "<="} {
				out = append(out, &autoInvCand{Hdr: h, Phi: phi, Op: op, C: c0, Text: fmt.Sprintf("%s %s %d", nm, op, c0)})
			}
		}
	}
	e.autoInv[fx.name] = out
	return out
}

func (c *autoInvCand) term(v string) string {
	return fmt.Sprintf("(%s %s %s)", c.Op, v, smtIntS(fmt.Sprint(c.C)))
}

func (x *Exec) assumeAutoInv(st *State, cut *ssa.BasicBlock) {
	if !x.eng.inferLoops {
		return
	}
	for _, c := range x.eng.loopCands(x.fx) {
		if c.Dead {
			continue
		}
		if c.Hdr != cut {
			// a path starting at an inner loop header runs inside the current iteration of the
			// enclosing loop: the enclosing header's counter still has the value it had there
			if x.fx.loopBody[c.Hdr][cut] && c.Hdr.Dominates(cut) {
				v := x.get(st, c.Phi)
				st.assume(c.term(v.T))
			}
			continue
		}
		if v, ok := st.env[c.Phi]; ok {
			st.assume(c.term(v.T))
			if !x.fx.trial {
				x.eng.mu.Lock()
				if x.eng.inferredUsed == nil {
					x.eng.inferredUsed = map[string]bool{}
				}
				x.eng.inferredUsed[fmt.Sprintf("%s loop%d: %s", x.fx.name, x.fx.headers[cut], c.Text)] = true
				x.eng.mu.Unlock()
			}
		}
	}
}

func (x *Exec) checkAutoInv(st *State, hdr *ssa.BasicBlock, ord int, inLoop bool, phiVals map[*ssa.Phi]Value) {
	if !x.eng.inferLoops || !x.fx.trial {
		return
	}
	phase := "init"
	if inLoop {
		phase = "pres"
	}
	for _, c := range x.eng.loopCands(x.fx) {
		if c.Hdr != hdr || c.Dead {
			continue
		}
		v, ok := phiVals[c.Phi]
		if !ok {
			continue
		}
		opw := map[string]string{">=": "ge", "<=": "le"}[c.Op]
		key := fmt.Sprintf("round%d:loop%d:%s.%s.%s", x.eng.trialRound, ord, strings.ReplaceAll(c.Text, c.Op, opw), c.Op, phase)
		x.eng.oblige(x.fx, st, "infer", key, c.term(v.T), "candidate loop invariant (assumed only if inductive): "+c.Text, hdr.Instrs[0].Pos())
		name := x.fx.name + "/infer/" + key
		found := false
		for _, o := range c.Obls {
			if o == name {
				found = true
			}
		}
		if !found {
			c.Obls = append(c.Obls, name)
		}
	}
}

// inferLoopInvariants runs the Houdini iteration for the given functions (all of one closure depth).
func (e *Engine) inferLoopInvariants(fns []*ssa.Function, sweep map[*ssa.Function]bool, discharge func()) {
	if !e.inferLoops {
		return
	}
	live := map[*ssa.Function]bool{}
	for _, fn := range fns {
		if len(fn.Blocks) == 0 {
			continue
		}
		if k := e.cs.Funcs[funcFullName(fn)]; k != nil && k.Trusted {
			continue
		}
		fx := &FuncExec{eng: e, fn: fn, name: funcFullName(fn)}
		fx.findLoops()
		if len(fx.headers) == 0 {
			continue
		}
		if len(e.loopCands(fx)) > 0 {
			live[fn] = true
		}
	}
	for round := 1; round <= 4 && len(live) > 0; round++ {
		e.trialRound = round
		for _, fn := range fns {
			if !live[fn] {
				continue
			}
			for _, c := range e.autoInv[funcFullName(fn)] {
				c.Obls = nil
			}
			e.verifyFunctionT(fn, sweep[fn], true)
		}
		discharge()
		for _, fn := range fns {
			if !live[fn] {
				continue
			}
			dropped := false
			for _, c := range e.autoInv[funcFullName(fn)] {
				if c.Dead {
					continue
				}
				ok := len(c.Obls) > 0
				for _, o := range c.Obls {
					if ob := e.obls[o]; ob == nil || ob.status() != "unsat" {
						ok = false
					}
				}
				if !ok {
					c.Dead = true
					dropped = true
				}
			}
			if !dropped {
				delete(live, fn)
			}
		}
	}
	// not stable within the round limit: assume nothing for those functions
	for fn := range live {
		for _, c := range e.autoInv[funcFullName(fn)] {
			c.Dead = true
		}
	}
}

// genericBody reports whether fn is an uninstantiated generic function (or an instance over the
// type parameters of another generic body): only its concrete instances are executable code.
func genericBody(fn *ssa.Function) bool {
	for f := fn; f != nil; f = f.Parent() {
		if f.TypeParams().Len() > 0 && len(f.TypeArgs()) == 0 {
			return true
		}
		for _, t := range f.TypeArgs() {
			if _, ok := t.(*types.TypeParam); ok {
				return true
			}
		}
	}
	return false
}

// frozenAtClosure reports whether the local variable cell a, captured by the closure created at
// mc, can no longer change once mc has executed: every store to it is in the enclosing function
// at a point that cannot follow mc, and every closure capturing it only loads it. For the
// closure the cell is then immutable (its content is whatever it held at creation).
func frozenAtClosure(a *ssa.Alloc, mc *ssa.MakeClosure) bool {
	refs := a.Referrers()
	if refs == nil {
		return false
	}
	after := map[*ssa.BasicBlock]bool{}
	var stack []*ssa.BasicBlock
	stack = append(stack, mc.Block().Succs...)
	for len(stack) > 0 {
		b := stack[len(stack)-1]
		stack = stack[:len(stack)-1]
		if after[b] {
			continue
		}
		after[b] = true
		stack = append(stack, b.Succs...)
	}
	for _, r := range *refs {
		switch u := r.(type) {
		case *ssa.UnOp:
			if u.Op != token.MUL {
				return false
			}
		case *ssa.DebugRef:
		case *ssa.Store:
			if u.Addr != ssa.Value(a) || u.Val == ssa.Value(a) {
				return false
			}
			if after[u.Block()] || (u.Block() == mc.Block() && instrIndex(u) > instrIndex(mc)) {
				return false
			}
		case *ssa.MakeClosure:
			f := u.Fn.(*ssa.Function)
			for i, b := range u.Bindings {
				if b == ssa.Value(a) {
					if i >= len(f.FreeVars) || !cellUsesConst(f.FreeVars[i], nil, 1) {
						return false
					}
				}
			}
		default:
			return false
		}
	}
	return true
}

// unescapedLocals lists local variable objects (structs addressed for method calls) whose
// address is only ever dereferenced, used for field/element addresses, or handed as an argument
// to a statically known callee that has a contract with a frame (modifies / pure): such a callee
// states everything it does to the object and is assumed not to retain the pointer. No other
// code can reach these objects, so an unknown callee (or "modifies world") leaves them alone.
func (fx *FuncExec) unescapedLocals() []*ssa.Alloc {
	if fx.unescDone {
		return fx.unescList
	}
	fx.unescDone = true
	if fx.fn == nil {
		return nil
	}
	isLocal := map[*ssa.Alloc]bool{}
	for _, a := range fx.localCells() {
		isLocal[a] = true
	}
	var ok func(v ssa.Value, depth int) bool
	ok = func(v ssa.Value, depth int) bool {
		refs := v.Referrers()
		if refs == nil || depth > 4 {
			return false
		}
		for _, r := range *refs {
			switch u := r.(type) {
			case *ssa.UnOp:
				if u.Op != token.MUL {
					return false
				}
			case *ssa.DebugRef:
			case *ssa.Store:
				if u.Addr != v {
					return false
				}
			case *ssa.FieldAddr:
				if !ok(u, depth+1) {
					return false
				}
			case *ssa.IndexAddr:
				if !ok(u, depth+1) {
					return false
				}
			case ssa.CallInstruction:
				cc := u.Common()
				if cc.IsInvoke() || cc.Value == v {
					return false
				}
				callee, isStatic := cc.Value.(*ssa.Function)
				if !isStatic {
					return false
				}
				k := fx.eng.cs.Funcs[funcFullName(callee)]
				if k == nil {
					if o := callee.Origin(); o != nil {
						k = fx.eng.cs.Funcs[funcFullName(o)]
					}
				}
				if k == nil {
					// a small loop-free method of the repository is executed inline: it must itself
					// only dereference its receiver
					if !inlinableFn(callee, 0, fx.fn) || len(callee.Params) == 0 || cc.Args[0] != v {
						return false
					}
					for i, a := range cc.Args {
						if i > 0 && a == v {
							return false
						}
					}
					if !ok(callee.Params[0], depth+1) {
						return false
					}
				} else if !(k.HasMod || k.Pure) {
					return false
				}
				if _, isGo := u.(*ssa.Go); isGo {
					return false
				}
			default:
				return false
			}
		}
		return true
	}
	for _, b := range fx.fn.Blocks {
		for _, ins := range b.Instrs {
			if a, isA := ins.(*ssa.Alloc); isA && !isLocal[a] && ok(a, 0) {
				if _, isArr := a.Type().(*types.Pointer).Elem().Underlying().(*types.Array); isArr {
					continue
				}
				fx.unescList = append(fx.unescList, a)
			}
		}
	}
	return fx.unescList
}
