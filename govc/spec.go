package main

import (
	"fmt"
	"go/constant"
	"go/types"
	"golang.org/x/tools/go/ssa"
	"os"
	"runtime/debug"
	"strconv"
	"strings"
)

type SpecCtx struct {
	x        *Exec
	st       *State
	cur      *HeapView
	old      *HeapView
	names    map[string]Value
	bound    map[string]Value
	resolver func(name string) (Value, bool)
	lenient  bool
	nbind    int
	noFn     bool
	hyp      bool // evaluating a hypothesis (quantifiers get one version per indexed array)
	pkgPath  string // package whose variables unqualified names denote (callee contracts); "" = the current function's
}

func (x *Exec) specCtx(st *State, cur, old *HeapView, names map[string]Value) *SpecCtx {
	return &SpecCtx{x: x, st: st, cur: cur, old: old, names: names, bound: map[string]Value{}}
}

type specErr struct{ msg string }

func (sc *SpecCtx) fail(format string, a ...interface{}) {
	if os.Getenv("VERIF_DEBUG") != "" {
		debug.PrintStack()
	}
	panic(unsupportedErr{"contract: " + fmt.Sprintf(format, a...)})
}

// evalHyp evaluates a formula that is going to be assumed.
func (sc *SpecCtx) evalHyp(e *Expr) string {
	sc.hyp = true
	defer func() { sc.hyp = false }()
	return sc.evalBool(e)
}

func (sc *SpecCtx) evalBool(e *Expr) string {
	v := sc.eval(e)
	if v.K != VBool {
		sc.fail("expected boolean: %s", e)
	}
	return v.T
}

func boolV(t string) Value { return Value{K: VBool, T: t, Ty: types.Typ[types.Bool]} }
func intV(t string) Value  { return Value{K: VInt, T: t, Ty: types.Typ[types.Int]} }

// onlyUses reports whether every free identifier of e is in env (or a pred/spec function).
func (sc *SpecCtx) onlyUses(e *Expr, env map[string]Value) bool {
	ok := true
	var walk func(e *Expr, bound map[string]bool)
	walk = func(e *Expr, bound map[string]bool) {
		if e == nil {
			return
		}
		if e.Op == "ident" {
			if !bound[e.Name] {
				if _, in := env[e.Name]; !in {
					if _, isConst := sc.pkgConst(e.Name); !isConst {
						ok = false
					}
				}
			}
			return
		}
		nb := bound
		if e.Op == "forall" || e.Op == "exists" {
			nb = map[string]bool{e.Name: true}
			for k := range bound {
				nb[k] = true
			}
		}
		for _, a := range e.Args {
			walk(a, nb)
		}
	}
	walk(e, map[string]bool{})
	return ok
}

func (sc *SpecCtx) pkgConst(name string) (Value, bool) {
	fn := sc.x.fx.fn
	if fn == nil {
		return Value{}, false
	}
	var pkg *types.Package
	if fn.Pkg != nil {
		pkg = fn.Pkg.Pkg
	} else if o := fn.Origin(); o != nil && o.Pkg != nil {
		pkg = o.Pkg.Pkg
	}
	if pkg == nil {
		return Value{}, false
	}
	obj := pkg.Scope().Lookup(name)
	if obj == nil {
		// dot-imported packages
		for _, imp := range pkg.Imports() {
			if o := imp.Scope().Lookup(name); o != nil && o.Exported() {
				if _, isC := o.(*types.Const); isC {
					obj = o
					break
				}
			}
		}
	}
	c, ok := obj.(*types.Const)
	if !ok {
		return Value{}, false
	}
	switch c.Val().Kind() {
	case constant.Int:
		return Value{K: VInt, T: smtIntS(c.Val().ExactString()), Ty: c.Type()}, true
	case constant.Bool:
		if constant.BoolVal(c.Val()) {
			return boolV("true"), true
		}
		return boolV("false"), true
	case constant.String:
		return sc.st.strLit(constant.StringVal(c.Val())), true
	}
	return Value{}, false
}

// pkgGlobal resolves pkg.Name for an imported package of the function under proof.
func (sc *SpecCtx) pkgGlobal(pkgName, name string) (Value, bool) {
	if _, shadow := sc.names[pkgName]; shadow {
		return Value{}, false
	}
	if _, shadow := sc.bound[pkgName]; shadow {
		return Value{}, false
	}
	fn := sc.x.fx.fn
	if fn == nil {
		return Value{}, false
	}
	var pkg *types.Package
	if fn.Pkg != nil {
		pkg = fn.Pkg.Pkg
	} else if o := fn.Origin(); o != nil && o.Pkg != nil {
		pkg = o.Pkg.Pkg
	}
	if pkg == nil {
		return Value{}, false
	}
	for _, imp := range pkg.Imports() {
		if imp.Name() != pkgName {
			continue
		}
		obj := imp.Scope().Lookup(name)
		switch o := obj.(type) {
		case *types.Var:
			a := Addr{Root: "0", Key: "global:" + typeKeyPkg(imp) + "." + name, Ty: o.Type()}
			return sc.load(a), true
		case *types.Const:
			switch o.Val().Kind() {
			case constant.Int:
				return Value{K: VInt, T: smtIntS(o.Val().ExactString()), Ty: o.Type()}, true
			case constant.String:
				return sc.st.strLit(constant.StringVal(o.Val())), true
			}
		}
	}
	return Value{}, false
}

func (sc *SpecCtx) lookup(name string) Value {
	if v, ok := sc.bound[name]; ok {
		return v
	}
	// in loop invariants the current value of a (possibly reassigned or captured) variable
	// takes precedence over the parameter's entry value
	if sc.resolver != nil {
		if v, ok := sc.resolver(name); ok {
			return v
		}
	}
	if v, ok := sc.names[name]; ok {
		return v
	}
	if v, ok := sc.pkgConst(name); ok {
		return v
	}
	if f, ok := sc.x.eng.cs.SmtFuns[name]; ok && len(f.Args) == 0 {
		return Value{K: sortKind(f.Res), T: name}
	}
	// package-level variable
	fn := sc.x.fx.fn
	var fpkg *ssa.Package
	if fn != nil {
		fpkg = fn.Pkg
		if fpkg == nil {
			fpkg = sc.x.eng.pkgs[sc.x.fx.pkgPath()] // instance of a generic function, closure inside one
		}
	}
	if sc.pkgPath != "" {
		// a callee's contract is read in the callee's package
		if p := sc.x.eng.pkgs[sc.pkgPath]; p != nil {
			if _, ok := p.Members[name]; ok {
				fpkg = p
			}
		}
	}
	if fpkg != nil {
		if g, ok := fpkg.Members[name]; ok {
			if gv, isG := g.(interface{ Type() types.Type }); isG {
				if pt, isP := gv.Type().Underlying().(*types.Pointer); isP {
					a := Addr{Root: "0", Key: "global:" + typeKeyPkg(fpkg.Pkg) + "." + name, Ty: pt.Elem()}
					return sc.st.loadAtIn(sc.cur, a)
				}
			}
		}
	}
	// a callee's contract evaluated in a caller of another package: the package-level variable of
	// the one loaded package that declares a variable of this name
	{
		var hit *ssa.Package
		n := 0
		for _, p := range sc.x.eng.pkgs {
			if p == nil || p == fpkg {
				continue
			}
			if g, ok := p.Members[name]; ok {
				if _, isG := g.(*ssa.Global); isG {
					hit = p
					n++
				}
			}
		}
		if n == 1 {
			g := hit.Members[name].(*ssa.Global)
			if pt, isP := g.Type().Underlying().(*types.Pointer); isP {
				a := Addr{Root: "0", Key: "global:" + typeKeyPkg(hit.Pkg) + "." + name, Ty: pt.Elem()}
				return sc.st.loadAtIn(sc.cur, a)
			}
		}
	}
	switch name {
	case "MaxInt64", "MaxInt":
		return intV("9223372036854775807")
	case "MinInt64", "MinInt":
		return intV("(- 9223372036854775808)")
	}
	sc.fail("unknown identifier %q", name)
	return Value{}
}

func sortKind(s string) VK {
	switch s {
	case "Int":
		return VInt
	case "Bool":
		return VBool
	case "Real":
		return VReal
	case "Str":
		return VStr
	}
	return VArray
}

// evalAddr evaluates an l-value expression to an address.
func (sc *SpecCtx) evalAddr(e *Expr) Addr {
	switch e.Op {
	case "sel":
		base := sc.eval(e.Args[0])
		a := sc.derefAddr(base, e)
		s, ok := a.Ty.Underlying().(*types.Struct)
		if !ok {
			sc.fail("field of non-struct in %s", e)
		}
		for i := 0; i < s.NumFields(); i++ {
			if s.Field(i).Name() == e.Name {
				return Addr{Root: a.Root, Key: a.Key + "." + e.Name, Idx: a.Idx, Ty: s.Field(i).Type()}
			}
		}
		sc.fail("no field %s in %s", e.Name, typeKey(a.Ty))
	case "un:*":
		base := sc.eval(e.Args[0])
		return sc.derefAddr(base, e)
	case "idx":
		base := sc.eval(e.Args[0])
		i := sc.eval(e.Args[1])
		if base.K == VSlice {
			et := base.Ty.Underlying().(*types.Slice).Elem()
			return Addr{Root: base.Arr, Key: "elem:" + typeKey(et), Idx: []string{"(+ " + base.Off + " " + i.T + ")"}, Ty: et}
		}
		sc.fail("index address of %s", base.K)
	case "ident":
		v := sc.lookup(e.Name)
		return sc.derefAddr(v, e)
	}
	sc.fail("not an addressable location: %s", e)
	return Addr{}
}

func (sc *SpecCtx) derefAddr(base Value, e *Expr) Addr {
	switch base.K {
	case VAddr:
		return *base.A
	case VRef:
		pt, ok := base.Ty.Underlying().(*types.Pointer)
		if !ok {
			sc.fail("deref of non-pointer in %s", e)
		}
		return Addr{Root: base.T, Key: rootKey(pt.Elem()), Ty: pt.Elem()}
	}
	sc.fail("cannot dereference %s in %s", base.K, e)
	return Addr{}
}

func (sc *SpecCtx) withHeap(h *HeapView, f func() Value) Value {
	saved := sc.cur
	sc.cur = h
	defer func() { sc.cur = saved }()
	return f()
}

func (sc *SpecCtx) eval(e *Expr) Value {
	st := sc.st
	switch e.Op {
	case "int":
		return intV(smtIntS(e.Val))
	case "real":
		return Value{K: VReal, T: e.Val, Ty: types.Typ[types.Float64]}
	case "str":
		return st.strLit(e.Val)
	case "true", "false":
		return boolV(e.Op)
	case "nil":
		return Value{K: VRef, T: "0", Ty: types.Typ[types.UntypedNil]}
	case "ident":
		return sc.lookup(e.Name)
	case "old":
		return sc.withHeap(sc.old, func() Value { return sc.eval(e.Args[0]) })
	case "un:!":
		return boolV(not(sc.evalBool(e.Args[0])))
	case "un:-":
		v := sc.eval(e.Args[0])
		return Value{K: v.K, T: "(- " + v.T + ")", Ty: v.Ty}
	case "un:*":
		base := sc.eval(e.Args[0])
		return sc.load(sc.derefAddr(base, e))
	case "sel":
		if e.Args[0].Op == "ident" {
			if v, ok := sc.pkgGlobal(e.Args[0].Name, e.Name); ok {
				return v
			}
		}
		base := sc.eval(e.Args[0])
		if base.K == VStruct {
			s := base.Ty.Underlying().(*types.Struct)
			for i := 0; i < s.NumFields(); i++ {
				if s.Field(i).Name() == e.Name {
					return base.Fs[i]
				}
			}
			sc.fail("no field %s", e.Name)
		}
		if base.K == VTuple {
			sc.fail("selector on tuple")
		}
		return sc.load(sc.evalAddr(e))
	case "idx":
		base := sc.eval(e.Args[0])
		i := sc.eval(e.Args[1])
		switch base.K {
		case VSlice:
			et := base.Ty.Underlying().(*types.Slice).Elem()
			a := Addr{Root: base.Arr, Key: "elem:" + typeKey(et), Idx: []string{"(+ " + base.Off + " " + i.T + ")"}, Ty: et}
			if kindOf(et) == VStruct {
				return Value{K: VAddr, A: &a, Ty: types.NewPointer(et)}
			}
			return sc.load(a)
		case VStr:
			return intV("(sat " + base.T + " " + i.T + ")")
		case VArray:
			k := VInt
			var et types.Type = types.Typ[types.Int]
			if base.Ty != nil {
				if arr, ok := base.Ty.Underlying().(*types.Array); ok {
					k, et = kindOf(arr.Elem()), arr.Elem()
				}
			}
			return Value{K: k, T: "(select " + base.T + " " + i.T + ")", Ty: et}
		}
		sc.fail("index of %s in %s", base.K, e)
	case "slice":
		base := sc.eval(e.Args[0])
		lo := "0"
		if e.Args[1] != nil {
			lo = sc.eval(e.Args[1]).T
		}
		switch base.K {
		case VStr:
			hi := "(slen " + base.T + ")"
			if e.Args[2] != nil {
				hi = sc.eval(e.Args[2]).T
			}
			return Value{K: VStr, T: fmt.Sprintf("(ssub %s %s %s)", base.T, lo, hi), Ty: base.Ty}
		case VSlice:
			hi := base.Len
			if e.Args[2] != nil {
				hi = sc.eval(e.Args[2]).T
			}
			return Value{K: VSlice, Arr: base.Arr, Off: "(+ " + base.Off + " " + lo + ")", Len: "(- " + hi + " " + lo + ")", Cap: "(- " + base.Cap + " " + lo + ")", Ty: base.Ty}
		}
		sc.fail("slice of %s", base.K)
	case "ite":
		c := sc.evalBool(e.Args[0])
		a, b := sc.eval(e.Args[1]), sc.eval(e.Args[2])
		a, b = sc.unify(a, b)
		return Value{K: a.K, T: fmt.Sprintf("(ite %s %s %s)", c, a.T, b.T), Ty: a.Ty}
	case "forall", "exists":
		return sc.quant(e)
	case "call":
		return sc.call(e)
	}
	if strings.HasPrefix(e.Op, "bin:") {
		return sc.binary(e)
	}
	sc.fail("cannot evaluate %s", e)
	return Value{}
}

func (sc *SpecCtx) load(a Addr) Value {
	st := sc.st
	if sc.nbind > 0 {
		st.quietInv++
		defer func() { st.quietInv-- }()
	}
	return st.loadAtIn(sc.cur, a)
}

func (sc *SpecCtx) unify(a, b Value) (Value, Value) {
	if a.K == VReal && b.K == VInt {
		b = Value{K: VReal, T: "(to_real " + b.T + ")", Ty: a.Ty}
	} else if a.K == VInt && b.K == VReal {
		a = Value{K: VReal, T: "(to_real " + a.T + ")", Ty: b.Ty}
	}
	return a, b
}

func (sc *SpecCtx) quant(e *Expr) Value {
	sort := "Int"
	k := VInt
	switch e.Val {
	case "str":
		sort, k = "Str", VStr
	case "real":
		sort, k = "Real", VReal
	case "bool":
		sort, k = "Bool", VBool
	}
	sc.nbind++
	name := sym(fmt.Sprintf("%s?%d", e.Name, sc.st.fx.nextBinder()))
	saved, had := sc.bound[e.Name]
	sc.bound[e.Name] = Value{K: k, T: name, Ty: types.Typ[types.Int]}
	var rng string
	if e.Args[0] != nil {
		lo, hi := sc.eval(e.Args[0]), sc.eval(e.Args[1])
		rng = fmt.Sprintf("(and (<= %s %s) (< %s %s))", lo.T, name, name, hi.T)
	}
	body := sc.evalBool(e.Args[2])
	if had {
		sc.bound[e.Name] = saved
	} else {
		delete(sc.bound, e.Name)
	}
	sc.nbind--
	return boolV(mkQuantM(e.Op, name, sort, rng, body, sc.hyp))
}

func (fx *FuncExec) nextBinder() int {
	fx.counter++
	return fx.counter
}

func (sc *SpecCtx) binary(e *Expr) Value {
	op := e.Op[4:]
	switch op {
	case "&&":
		return boolV(and(sc.evalBool(e.Args[0]), sc.evalBool(e.Args[1])))
	case "||":
		return boolV(or(sc.evalBool(e.Args[0]), sc.evalBool(e.Args[1])))
	case "==>":
		return boolV(implies(sc.evalBool(e.Args[0]), sc.evalBool(e.Args[1])))
	case "<==>":
		return boolV("(= " + sc.evalBool(e.Args[0]) + " " + sc.evalBool(e.Args[1]) + ")")
	}
	a, b := sc.eval(e.Args[0]), sc.eval(e.Args[1])
	a, b = sc.unify(a, b)
	switch op {
	case "==", "!=":
		var eq string
		switch {
		case a.K == VSlice && b.K == VSlice:
			eq = fmt.Sprintf("(and (= %s %s) (= %s %s) (= %s %s))", a.Arr, b.Arr, a.Off, b.Off, a.Len, b.Len)
		case a.K == VSlice && b.K == VRef && b.T == "0":
			eq = "(= " + a.Arr + " 0)"
		case b.K == VSlice && a.K == VRef && a.T == "0":
			eq = "(= " + b.Arr + " 0)"
		case a.K == VAddr || b.K == VAddr:
			a, b = sc.st.addrToRef2(a), sc.st.addrToRef2(b)
			eq = "(= " + a.T + " " + b.T + ")"
		case a.K >= VSlice || b.K >= VSlice:
			if a.K == VArray && b.K == VArray {
				eq = "(= " + a.T + " " + b.T + ")"
			} else {
				sc.fail("cannot compare %s and %s in %s", a.K, b.K, e)
			}
		default:
			eq = "(= " + a.T + " " + b.T + ")"
		}
		if op == "!=" {
			eq = not(eq)
		}
		return boolV(eq)
	case "<", "<=", ">", ">=":
		if a.K == VStr {
			switch op {
			case "<":
				return boolV("(str_lt " + a.T + " " + b.T + ")")
			case ">":
				return boolV("(str_lt " + b.T + " " + a.T + ")")
			case "<=":
				return boolV("(not (str_lt " + b.T + " " + a.T + "))")
			default:
				return boolV("(not (str_lt " + a.T + " " + b.T + "))")
			}
		}
		return boolV("(" + op + " " + a.T + " " + b.T + ")")
	case "+":
		if a.K == VStr {
			return Value{K: VStr, T: "(scat " + a.T + " " + b.T + ")", Ty: a.Ty}
		}
		return Value{K: a.K, T: "(+ " + a.T + " " + b.T + ")", Ty: a.Ty}
	case "-", "*":
		return Value{K: a.K, T: "(" + op + " " + a.T + " " + b.T + ")", Ty: a.Ty}
	case "/":
		if a.K == VReal {
			return Value{K: VReal, T: "(/ " + a.T + " " + b.T + ")", Ty: a.Ty}
		}
		return Value{K: VInt, T: "(div " + a.T + " " + b.T + ")", Ty: a.Ty}
	case "%":
		return Value{K: VInt, T: "(mod " + a.T + " " + b.T + ")", Ty: a.Ty}
	}
	sc.fail("operator %s", op)
	return Value{}
}

func (sc *SpecCtx) call(e *Expr) Value {
	st := sc.st
	cs := sc.x.eng.cs
	switch e.Name {
	case "len":
		v := sc.eval(e.Args[0])
		switch v.K {
		case VSlice:
			return intV(v.Len)
		case VStr:
			return intV("(slen " + v.T + ")")
		case VMap:
			return sc.x.mapLenIn(st, sc.cur, v)
		}
		sc.fail("len of %s", v.K)
	case "cap":
		v := sc.eval(e.Args[0])
		if v.K == VSlice {
			return intV(v.Cap)
		}
		sc.fail("cap of %s", v.K)
	case "arr": // SMT array of the elements of a slice's backing array
		v := sc.eval(e.Args[0])
		if v.K != VSlice {
			sc.fail("arr() of %s", v.K)
		}
		et := v.Ty.Underlying().(*types.Slice).Elem()
		ek := kindOf(et)
		if ek >= VSlice {
			sc.fail("arr() of aggregate slice")
		}
		h := st.heapTermIn(sc.cur, "elem:"+typeKey(et), 2, scalarSort(ek))
		return Value{K: VArray, T: "(select " + h + " " + v.Arr + ")", Ty: types.NewArray(et, 0)}
	case "off":
		v := sc.eval(e.Args[0])
		if v.K != VSlice {
			sc.fail("off() of %s", v.K)
		}
		return intV(v.Off)
	case "is_string": // dynamic type of an interface value is string
		v := sc.eval(e.Args[0])
		return boolV(fmt.Sprintf("(= (dyn_type %s) %s)", v.T, sc.x.typeTag(st, types.Typ[types.String])))
	case "ref": // reference identity of a slice's backing array or pointer
		v := sc.eval(e.Args[0])
		if v.K == VSlice {
			return intV(v.Arr)
		}
		if v.K == VAddr {
			v = st.addrToRef(v)
		}
		return intV(v.T)
	case "fresh": // allocated during the call (not present in the old heap)
		v := sc.eval(e.Args[0])
		t := v.T
		if v.K == VSlice {
			t = v.Arr
		}
		return boolV(fmt.Sprintf("(>= %s %s)", t, sc.brkOld()))
	case "tquo", "trem", "fdiv": // Go truncated quotient / remainder, floor division (positive divisor)
		a, b := sc.eval(e.Args[0]), sc.eval(e.Args[1])
		if sc.nbind == 0 {
			st.assume(divFacts(a.T, b.T, types.Typ[types.Int64]))
		}
		return intV("(" + e.Name + " " + a.T + " " + b.T + ")")
	case "byteat": // byteat(a, i): byte i of backing array a
		a, i := sc.eval(e.Args[0]), sc.eval(e.Args[1])
		h := st.heapTermIn(sc.cur, "elem:uint8", 2, "Int")
		return intV("(select (select " + h + " " + a.T + ") " + i.T + ")")
	case "str": // str(b): the string with the bytes of byte slice b (value at this heap)
		v := sc.eval(e.Args[0])
		if v.K == VStr {
			return v
		}
		if v.K != VSlice {
			sc.fail("str() of %s", v.K)
		}
		h := st.heapTermIn(sc.cur, "elem:uint8", 2, "Int")
		return Value{K: VStr, T: fmt.Sprintf("(bytes_str (select %s %s) %s %s)", h, v.Arr, v.Off, v.Len), Ty: types.Typ[types.String]}
	case "intat": // intat(a, i): element i of the []int backing array a
		a, i := sc.eval(e.Args[0]), sc.eval(e.Args[1])
		h := st.heapTermIn(sc.cur, "elem:int", 2, "Int")
		return intV("(select (select " + h + " " + a.T + ") " + i.T + ")")
	case "farr": // farr(slice, "field"): SMT array of one field of a slice of structs
		v := sc.eval(e.Args[0])
		if v.K != VSlice || len(e.Args) != 2 || e.Args[1].Op != "str" {
			sc.fail("farr(slice, \"field\") expected")
		}
		et := v.Ty.Underlying().(*types.Slice).Elem()
		stt, ok := et.Underlying().(*types.Struct)
		if !ok {
			sc.fail("farr of non-struct elements")
		}
		for i := 0; i < stt.NumFields(); i++ {
			if stt.Field(i).Name() == e.Args[1].Val {
				fk := kindOf(stt.Field(i).Type())
				if fk >= VSlice {
					sc.fail("farr of aggregate field")
				}
				h := st.heapTermIn(sc.cur, "elem:"+typeKey(et)+"."+e.Args[1].Val, 2, scalarSort(fk))
				return Value{K: VArray, T: "(select " + h + " " + v.Arr + ")", Ty: types.NewArray(stt.Field(i).Type(), 0)}
			}
		}
		sc.fail("farr: no field %s", e.Args[1].Val)
	case "allocated": // allocated(x): x is a live object of the heap being described
		a := sc.eval(e.Args[0])
		if a.K == VAddr {
			a = st.addrToRef(a)
		}
		t := a.T
		if a.K == VSlice {
			t = a.Arr
		}
		b := st.brk
		if sc.cur == sc.old && sc.cur != st.heap {
			b = sc.brkOld()
		}
		return boolV(fmt.Sprintf("(and (< 0 %s) (< %s %s))", t, t, b))
	case "allocated_at_entry":
		a := sc.eval(e.Args[0])
		return boolV(fmt.Sprintf("(and (< 0 %s) (< %s %s))", a.T, a.T, sc.brkOld()))
	case "real":
		v := sc.eval(e.Args[0])
		if v.K == VReal {
			return v
		}
		return Value{K: VReal, T: "(to_real " + v.T + ")", Ty: types.Typ[types.Float64]}
	case "in_dom": // in_dom(m, k)
		m, k := sc.eval(e.Args[0]), sc.eval(e.Args[1])
		return boolV(sc.x.mapDomIn(st, sc.cur, m, k.T))
	case "map_get": // map_get(m, k): stored value (meaningful when in_dom)
		m, k := sc.eval(e.Args[0]), sc.eval(e.Args[1])
		return sc.x.mapGetIn(st, sc.cur, m, k.T)
	case "addrof": // addrof(x): the address (cell) of local variable x
		if len(e.Args) == 1 && e.Args[0].Op == "ident" && sc.resolver != nil {
			if v, ok := sc.resolver("&" + e.Args[0].Name); ok {
				return v
			}
		}
		// addrof(p.f): the address of a field of the object p points to (an embedded struct keeps its
		// ghost state under its owner)
		if len(e.Args) == 1 && e.Args[0].Op == "sel" && e.Args[0].Name != "*" {
			a := sc.evalAddr(e.Args[0])
			return Value{K: VAddr, A: &a, Ty: types.NewPointer(a.Ty)}
		}
		sc.fail("addrof() needs a local variable that lives in memory")
	case "dynref": // dynref(x): the pointer held by interface value x
		v := sc.eval(e.Args[0])
		if len(v.Fs) == 1 && v.Fs[0].K == VRef {
			return Value{K: VRef, T: v.Fs[0].T, Ty: v.Fs[0].Ty}
		}
		return Value{K: VRef, T: "(iface_int " + v.T + ")", Ty: types.Typ[types.UnsafePointer]}
	case "store": // store(a, i, v): array a updated at i
		a, i, v := sc.eval(e.Args[0]), sc.eval(e.Args[1]), sc.eval(e.Args[2])
		if a.K != VArray {
			sc.fail("store() of a non-array")
		}
		return Value{K: VArray, T: fmt.Sprintf("(store %s %s %s)", a.T, i.T, v.T), Ty: a.Ty}
	case "f2i": // f2i(x): truncation of a real towards zero (Go's float -> int conversion when representable)
		v := sc.eval(e.Args[0])
		if v.K != VReal {
			return v
		}
		return intV(fmt.Sprintf("(ite (>= %s 0.0) (to_int %s) (- (to_int (- %s))))", v.T, v.T, v.T))
	case "param": // param(x): the entry value of parameter x (invariants otherwise see the current value)
		if len(e.Args) == 1 && e.Args[0].Op == "ident" {
			if v, ok := sc.names[e.Args[0].Name]; ok {
				return v
			}
		}
		sc.fail("param() of a non-parameter")
	case "rangelen":
		if sc.resolver != nil {
			if v, ok := sc.resolver("$rangelen"); ok {
				return v
			}
		}
		sc.fail("rangelen() outside a range-over-slice loop")
	case "rangeslice": // rangeslice(): the slice a range loop iterates over (its header is fixed when the loop starts)
		if sc.resolver != nil {
			if v, ok := sc.resolver("$rangeslice"); ok {
				return v
			}
		}
		sc.fail("rangeslice() outside a range-over-slice loop")
	case "lastkey_in": // lastkey_in(n): the key most recently produced by map range loop number n
		if len(e.Args) != 1 || e.Args[0].Op != "int" {
			sc.fail("lastkey_in(loop ordinal)")
		}
		wantL, _ := strconv.Atoi(e.Args[0].Val)
		for hdr, ord := range sc.x.fx.headers {
			if ord != wantL {
				continue
			}
			for _, ins := range hdr.Instrs {
				nx, ok := ins.(*ssa.Next)
				if !ok || nx.IsString {
					continue
				}
				rng, _ := nx.Iter.(*ssa.Range)
				if rng == nil {
					continue
				}
				_, kk, _ := mapKeys(rng.X.Type())
				ksort := scalarSort(kk)
				it := sc.x.get(st, nx.Iter)
				lh := st.heapTermIn(sc.cur, "ghost:lastkey:"+ksort, 1, ksort)
				return Value{K: kk, T: fmt.Sprintf("(select %s %s)", lh, it.T), Ty: rng.X.Type().Underlying().(*types.Map).Key()}
			}
		}
		sc.fail("lastkey_in: loop %d is not a map range loop", wantL)
	case "visited_in": // visited_in(n, k): key k was already produced by the map range loop number n
		if len(e.Args) != 2 || e.Args[0].Op != "int" {
			sc.fail("visited_in(loop ordinal, key)")
		}
		want, _ := strconv.Atoi(e.Args[0].Val)
		for hdr, ord := range sc.x.fx.headers {
			if ord != want {
				continue
			}
			for _, ins := range hdr.Instrs {
				nx, ok := ins.(*ssa.Next)
				if !ok || nx.IsString {
					continue
				}
				rng, _ := nx.Iter.(*ssa.Range)
				if rng == nil {
					continue
				}
				_, kk, _ := mapKeys(rng.X.Type())
				ksort := scalarSort(kk)
				it := sc.x.get(st, nx.Iter)
				k := sc.eval(e.Args[1])
				vh := st.heapTermIn(sc.cur, "ghost:visited:"+ksort, 1, "(Array "+ksort+" Bool)")
				return boolV(fmt.Sprintf("(select (select %s %s) %s)", vh, it.T, k.T))
			}
		}
		sc.fail("visited_in: loop %d is not a map range loop", want)
	case "rangepos":
		if sc.resolver != nil {
			if v, ok := sc.resolver("$rangepos"); ok {
				a := Addr{Root: v.T, Key: "ghost:iterpos", Ty: types.Typ[types.Int]}
				idx := a.indices()
				return intV(selectChain(st.heapTermIn(sc.cur, a.Key, 1, "Int"), idx))
			}
		}
		sc.fail("rangepos() outside a range loop")
	}
	if g, ok := cs.Ghosts[e.Name]; ok {
		if len(e.Args) != 1 {
			sc.fail("ghost %s takes one argument", g.Name)
		}
		a := sc.eval(e.Args[0])
		if a.K == VAddr {
			// ghost state of an embedded object (a mutex, a WaitGroup field) is keyed by its owner
			a = Value{K: VRef, T: a.A.Root}
		}
		if a.T == "" {
			sc.fail("ghost %s needs a reference argument (use addrof(x) for a local struct variable)", g.Name)
		}
		sort, _ := ghostSort(g)
		h := st.heapTermIn(sc.cur, "ghost:"+g.Name, 1, sort)
		return Value{K: sortKind(sort), T: "(select " + h + " " + a.T + ")", Ty: ghostType(g)}
	}
	if p, ok := cs.Preds[e.Name]; ok {
		if len(e.Args) != len(p.Params) {
			sc.fail("pred %s: arity", e.Name)
		}
		// evaluate args first (in the caller's scope), then bind
		vals := make([]Value, len(p.Params))
		for i := range p.Params {
			vals[i] = sc.eval(e.Args[i])
		}
		saved := map[string]Value{}
		had := map[string]bool{}
		for i, pn := range p.Params {
			saved[pn], had[pn] = sc.bound[pn]
			sc.bound[pn] = vals[i]
		}
		r := sc.eval(p.Body)
		for _, pn := range p.Params {
			if had[pn] {
				sc.bound[pn] = saved[pn]
			} else {
				delete(sc.bound, pn)
			}
		}
		return r
	}
	if f, ok := cs.SmtFuns[e.Name]; ok {
		var flat []Value
		var flatten func(v Value)
		flatten = func(v Value) {
			if v.K == VStruct {
				for _, fv := range v.Fs {
					flatten(fv)
				}
				return
			}
			flat = append(flat, v)
		}
		for _, a := range e.Args {
			v := sc.eval(a)
			if v.K == VAddr {
				v = st.addrToRef(v)
			}
			flatten(v)
		}
		if len(f.Args) != len(flat) {
			sc.fail("spec function %s expects %d (flattened) args, got %d", e.Name, len(f.Args), len(flat))
		}
		var args []string
		for i, v := range flat {
			if v.K >= VSlice && v.K != VArray {
				sc.fail("aggregate argument to spec function %s", e.Name)
			}
			t := v.T
			if f.Args[i] == "Real" && v.K == VInt {
				t = "(to_real " + t + ")"
			}
			args = append(args, t)
		}
		return Value{K: sortKind(f.Res), T: "(" + e.Name + " " + strings.Join(args, " ") + ")"}
	}
	sc.fail("unknown function %q in contract", e.Name)
	return Value{}
}

func ghostType(g *GhostDef) types.Type {
	switch g.Res {
	case "bool":
		return types.Typ[types.Bool]
	case "str":
		return types.Typ[types.String]
	case "real":
		return types.Typ[types.Float64]
	case "bytes":
		return types.NewArray(types.Typ[types.Uint8], 0)
	case "reals":
		return types.NewArray(types.Typ[types.Float64], 0)
	case "strs":
		return types.NewArray(types.Typ[types.String], 0)
	case "ints":
		return types.NewArray(types.Typ[types.Int], 0)
	}
	return types.Typ[types.Int]
}

func (sc *SpecCtx) brkOld() string {
	if sc.st.callBrk != "" {
		return sc.st.callBrk
	}
	return "|brk0|"
}

func (x *Exec) mapLenIn(st *State, h *HeapView, mv Value) Value {
	mk, _, _ := mapKeys(mv.Ty)
	t := st.heapTermIn(h, mk+"#len", 1, "Int")
	return intV("(select " + t + " " + mv.T + ")")
}

func (x *Exec) mapDomIn(st *State, h *HeapView, mv Value, k string) string {
	mk, kk, _ := mapKeys(mv.Ty)
	ksort := scalarSort(kk)
	dom := st.heapTermIn(h, mk+"#dom", 1, "(Array "+ksort+" Bool)")
	return fmt.Sprintf("(select (select %s %s) %s)", dom, mv.T, k)
}

func (x *Exec) mapGetIn(st *State, h *HeapView, mv Value, k string) Value {
	mk, kk, vt := mapKeys(mv.Ty)
	ksort := scalarSort(kk)
	vk := kindOf(vt)
	if vk == VSlice {
		return x.mapSliceVal(st, h, mk, mv, ksort, vt, k)
	}
	if vk >= VSlice {
		st.unsupported("map_get of aggregate value")
	}
	t := st.heapTermIn(h, mk+"#val", 1, "(Array "+ksort+" "+scalarSort(vk)+")")
	return Value{K: vk, T: fmt.Sprintf("(select (select %s %s) %s)", t, mv.T, k), Ty: vt}
}
