package main

import (
	"fmt"
	"strconv"
	"strings"
	"unicode"
)

// Expr is the AST of contract expressions.
type Expr struct {
	Op   string // ident int real char str nil true false  un:! un:- un:*  bin:<op>  sel idx slice call old forall exists ite result
	Name string // ident / sel field / call function / bound var
	Val  string // literal text
	Args []*Expr
	// quantifier: Args[0]=lo Args[1]=hi (may be nil for unbounded) Args[2]=body ; Val = sort for unbounded ("int","str",...)
}

func (e *Expr) String() string {
	if e == nil {
		return "<nil>"
	}
	switch e.Op {
	case "ident":
		return e.Name
	case "int", "real":
		return e.Val
	case "char":
		return "'" + e.Val + "'"
	case "str":
		return strconv.Quote(e.Val)
	case "nil", "true", "false":
		return e.Op
	case "sel":
		return e.Args[0].String() + "." + e.Name
	case "idx":
		return e.Args[0].String() + "[" + e.Args[1].String() + "]"
	case "slice":
		return e.Args[0].String() + "[" + e.Args[1].String() + ":" + e.Args[2].String() + "]"
	case "call":
		var a []string
		for _, x := range e.Args {
			a = append(a, x.String())
		}
		return e.Name + "(" + strings.Join(a, ", ") + ")"
	case "old":
		return "old(" + e.Args[0].String() + ")"
	case "forall", "exists":
		if e.Args[0] != nil {
			return e.Op + " " + e.Name + " in [" + e.Args[0].String() + "," + e.Args[1].String() + ") :: " + e.Args[2].String()
		}
		return e.Op + " " + e.Name + ": " + e.Val + " :: " + e.Args[2].String()
	case "ite":
		return "(if " + e.Args[0].String() + " then " + e.Args[1].String() + " else " + e.Args[2].String() + ")"
	}
	if strings.HasPrefix(e.Op, "un:") {
		return e.Op[3:] + e.Args[0].String()
	}
	if strings.HasPrefix(e.Op, "bin:") {
		return "(" + e.Args[0].String() + " " + e.Op[4:] + " " + e.Args[1].String() + ")"
	}
	return e.Op
}

type tok struct {
	k string // id int real char str op eof
	v string
}

type lexer struct {
	toks []tok
	pos  int
}

var ops = []string{"<==>", "==>", "::", ":=", "==", "!=", "<=", ">=", "&&", "||", "<<", ">>", "+", "-", "*", "/", "%", "<", ">", "!", "(", ")", "[", "]", ",", ".", ":", "&", "|", "^"}

func lex(s string) ([]tok, error) {
	var out []tok
	i := 0
	for i < len(s) {
		c := s[i]
		switch {
		case c == ' ' || c == '\t' || c == '\n':
			i++
		case unicode.IsLetter(rune(c)) || c == '_' || c == '$':
			j := i
			for j < len(s) && (unicode.IsLetter(rune(s[j])) || unicode.IsDigit(rune(s[j])) || s[j] == '_' || s[j] == '$' || s[j] == '#') {
				j++
			}
			out = append(out, tok{"id", s[i:j]})
			i = j
		case unicode.IsDigit(rune(c)):
			j := i
			isReal := false
			if c == '0' && j+1 < len(s) && (s[j+1] == 'x' || s[j+1] == 'X') {
				j += 2
				for j < len(s) && strings.ContainsRune("0123456789abcdefABCDEF", rune(s[j])) {
					j++
				}
				v, _ := strconv.ParseUint(s[i+2:j], 16, 64)
				out = append(out, tok{"int", strconv.FormatUint(v, 10)})
				i = j
				continue
			}
			for j < len(s) && (unicode.IsDigit(rune(s[j])) || (s[j] == '.' && j+1 < len(s) && unicode.IsDigit(rune(s[j+1])))) {
				if s[j] == '.' {
					isReal = true
				}
				j++
			}
			if isReal {
				out = append(out, tok{"real", s[i:j]})
			} else {
				out = append(out, tok{"int", s[i:j]})
			}
			i = j
		case c == '\'':
			j := i + 1
			for j < len(s) && s[j] != '\'' {
				if s[j] == '\\' {
					j++
				}
				j++
			}
			if j >= len(s) {
				return nil, fmt.Errorf("unterminated char")
			}
			r, _, _, err := strconv.UnquoteChar(s[i+1:j], '\'')
			if err != nil {
				return nil, fmt.Errorf("bad char literal %s", s[i:j+1])
			}
			out = append(out, tok{"int", strconv.Itoa(int(r))})
			i = j + 1
		case c == '"':
			j := i + 1
			for j < len(s) && s[j] != '"' {
				if s[j] == '\\' {
					j++
				}
				j++
			}
			if j >= len(s) {
				return nil, fmt.Errorf("unterminated string")
			}
			v, err := strconv.Unquote(s[i : j+1])
			if err != nil {
				return nil, fmt.Errorf("bad string literal %s", s[i:j+1])
			}
			out = append(out, tok{"str", v})
			i = j + 1
		default:
			matched := false
			for _, o := range ops {
				if strings.HasPrefix(s[i:], o) {
					out = append(out, tok{"op", o})
					i += len(o)
					matched = true
					break
				}
			}
			if !matched {
				return nil, fmt.Errorf("unexpected character %q", c)
			}
		}
	}
	out = append(out, tok{"eof", ""})
	return out, nil
}

func ParseExpr(s string) (*Expr, error) {
	toks, err := lex(s)
	if err != nil {
		return nil, err
	}
	lx := &lexer{toks: toks}
	var e *Expr
	func() {
		defer func() {
			if r := recover(); r != nil {
				err = fmt.Errorf("%v", r)
			}
		}()
		e = lx.parseIff()
		if lx.peek().k != "eof" {
			panic(fmt.Sprintf("unexpected token %q", lx.peek().v))
		}
	}()
	return e, err
}

func (l *lexer) peek() tok { return l.toks[l.pos] }
func (l *lexer) next() tok { t := l.toks[l.pos]; l.pos++; return t }
func (l *lexer) isOp(v string) bool {
	t := l.peek()
	return t.k == "op" && t.v == v
}
func (l *lexer) isId(v string) bool {
	t := l.peek()
	return t.k == "id" && t.v == v
}
func (l *lexer) expectOp(v string) {
	if !l.isOp(v) {
		panic(fmt.Sprintf("expected %q, got %q", v, l.peek().v))
	}
	l.pos++
}

func bin(op string, a, b *Expr) *Expr { return &Expr{Op: "bin:" + op, Args: []*Expr{a, b}} }

func (l *lexer) parseIff() *Expr {
	e := l.parseImp()
	for l.isOp("<==>") {
		l.next()
		r := l.parseImp()
		e = bin("<==>", e, r)
	}
	return e
}
func (l *lexer) parseImp() *Expr {
	e := l.parseOr()
	if l.isOp("==>") {
		l.next()
		r := l.parseImp()
		return bin("==>", e, r)
	}
	return e
}
func (l *lexer) parseOr() *Expr {
	e := l.parseAnd()
	for l.isOp("||") {
		l.next()
		e = bin("||", e, l.parseAnd())
	}
	return e
}
func (l *lexer) parseAnd() *Expr {
	e := l.parseCmp()
	for l.isOp("&&") {
		l.next()
		e = bin("&&", e, l.parseCmp())
	}
	return e
}
func (l *lexer) parseCmp() *Expr {
	e := l.parseAdd()
	// chained comparisons a <= b < c
	var chain *Expr
	prev := e
	for {
		t := l.peek()
		if t.k == "op" && (t.v == "==" || t.v == "!=" || t.v == "<" || t.v == "<=" || t.v == ">" || t.v == ">=") {
			l.next()
			r := l.parseAdd()
			c := bin(t.v, prev, r)
			if chain == nil {
				chain = c
			} else {
				chain = bin("&&", chain, c)
			}
			prev = r
		} else {
			break
		}
	}
	if chain != nil {
		return chain
	}
	return e
}
func (l *lexer) parseAdd() *Expr {
	e := l.parseMul()
	for l.isOp("+") || l.isOp("-") {
		o := l.next().v
		e = bin(o, e, l.parseMul())
	}
	return e
}
func (l *lexer) parseMul() *Expr {
	e := l.parseUnary()
	for l.isOp("*") || l.isOp("/") || l.isOp("%") {
		o := l.next().v
		e = bin(o, e, l.parseUnary())
	}
	return e
}
func (l *lexer) parseUnary() *Expr {
	if l.isOp("!") || l.isOp("-") || l.isOp("*") {
		o := l.next().v
		return &Expr{Op: "un:" + o, Args: []*Expr{l.parseUnary()}}
	}
	return l.parsePostfix()
}
func (l *lexer) parsePostfix() *Expr {
	e := l.parsePrimary()
	for {
		switch {
		case l.isOp("."):
			l.next()
			t := l.next()
			if t.k == "op" && t.v == "*" {
				e = &Expr{Op: "sel", Name: "*", Args: []*Expr{e}}
				continue
			}
			if t.k != "id" {
				panic("expected field name after '.'")
			}
			e = &Expr{Op: "sel", Name: t.v, Args: []*Expr{e}}
		case l.isOp("["):
			l.next()
			var lo, hi *Expr
			if !l.isOp(":") {
				lo = l.parseIff()
			}
			if l.isOp(":") {
				l.next()
				if !l.isOp("]") {
					hi = l.parseIff()
				}
				l.expectOp("]")
				e = &Expr{Op: "slice", Args: []*Expr{e, lo, hi}}
			} else {
				l.expectOp("]")
				e = &Expr{Op: "idx", Args: []*Expr{e, lo}}
			}
		case l.isOp("(") && e.Op == "ident":
			l.next()
			var args []*Expr
			for !l.isOp(")") {
				args = append(args, l.parseIff())
				if l.isOp(",") {
					l.next()
				}
			}
			l.expectOp(")")
			if e.Name == "old" {
				e = &Expr{Op: "old", Args: args}
			} else {
				e = &Expr{Op: "call", Name: e.Name, Args: args}
			}
		default:
			return e
		}
	}
}
func (l *lexer) parsePrimary() *Expr {
	t := l.next()
	switch t.k {
	case "int":
		return &Expr{Op: "int", Val: t.v}
	case "real":
		return &Expr{Op: "real", Val: t.v}
	case "str":
		return &Expr{Op: "str", Val: t.v}
	case "id":
		switch t.v {
		case "true", "false", "nil":
			return &Expr{Op: t.v}
		case "forall", "exists":
			v := l.next()
			if v.k != "id" {
				panic("expected bound variable")
			}
			q := &Expr{Op: t.v, Name: v.v, Args: make([]*Expr, 3)}
			if l.isId("in") {
				l.next()
				l.expectOp("[")
				q.Args[0] = l.parseIff()
				l.expectOp(",")
				q.Args[1] = l.parseIff()
				l.expectOp(")")
			} else if l.isOp(":") {
				l.next()
				s := l.next()
				q.Val = s.v
			} else {
				q.Val = "int"
			}
			l.expectOp("::")
			q.Args[2] = l.parseIff()
			return q
		case "if":
			c := l.parseIff()
			if !l.isId("then") {
				panic("expected then")
			}
			l.next()
			a := l.parseIff()
			if !l.isId("else") {
				panic("expected else")
			}
			l.next()
			b := l.parseIff()
			return &Expr{Op: "ite", Args: []*Expr{c, a, b}}
		}
		return &Expr{Op: "ident", Name: t.v}
	case "op":
		if t.v == "(" {
			e := l.parseIff()
			l.expectOp(")")
			return e
		}
	}
	panic(fmt.Sprintf("unexpected token %q", t.v))
}

// substitute replaces identifiers by expressions (used for pred macro expansion).
func (e *Expr) subst(m map[string]*Expr) *Expr {
	if e == nil {
		return nil
	}
	if e.Op == "ident" {
		if r, ok := m[e.Name]; ok {
			return r
		}
		return e
	}
	n := *e
	n.Args = make([]*Expr, len(e.Args))
	mm := m
	if (e.Op == "forall" || e.Op == "exists") && m[e.Name] != nil {
		mm = map[string]*Expr{}
		for k, v := range m {
			if k != e.Name {
				mm[k] = v
			}
		}
	}
	for i, a := range e.Args {
		if (e.Op == "forall" || e.Op == "exists") && i < 2 {
			n.Args[i] = a.subst(m)
		} else {
			n.Args[i] = a.subst(mm)
		}
	}
	return &n
}

// conjuncts splits top-level && into separate goals.
func (e *Expr) conjuncts() []*Expr {
	if e.Op == "bin:&&" {
		return append(e.Args[0].conjuncts(), e.Args[1].conjuncts()...)
	}
	return []*Expr{e}
}

// inlinePreds expands pred calls into their bodies (so that goals can be split per conjunct).
func (cs *Contracts) inlinePreds(e *Expr, depth int) *Expr {
	if e == nil || depth > 8 {
		return e
	}
	if e.Op == "call" {
		if p, ok := cs.Preds[e.Name]; ok && len(p.Params) == len(e.Args) {
			m := map[string]*Expr{}
			for i, pn := range p.Params {
				m[pn] = cs.inlinePreds(e.Args[i], depth+1)
			}
			return cs.inlinePreds(p.Body.subst(m), depth+1)
		}
	}
	n := *e
	n.Args = make([]*Expr, len(e.Args))
	for i, a := range e.Args {
		n.Args[i] = cs.inlinePreds(a, depth+1)
	}
	return &n
}

// goals splits an expression into independently provable goals: top-level conjunctions,
// and conjunctions on the right of an implication (a ==> b && c  becomes  a ==> b, a ==> c).
func (cs *Contracts) goals(e *Expr) []*Expr {
	e = cs.inlinePreds(e, 0)
	var out []*Expr
	var rec func(e *Expr, guard *Expr)
	rec = func(e *Expr, guard *Expr) {
		switch e.Op {
		case "bin:&&":
			rec(e.Args[0], guard)
			rec(e.Args[1], guard)
			return
		case "bin:==>":
			g := e.Args[0]
			if guard != nil {
				g = bin("&&", guard, g)
			}
			rec(e.Args[1], g)
			return
		}
		if guard != nil {
			out = append(out, bin("==>", guard, e))
		} else {
			out = append(out, e)
		}
	}
	rec(e, nil)
	return out
}
