package main

import (
	"fmt"
	"go/types"

	"golang.org/x/tools/go/ssa"
)

func (x *Exec) builtin(st *State, ins ssa.Value, c *ssa.CallCommon, name string, args []Value) []*State {
	one := []*State{st}
	switch name {
	case "len":
		a := args[0]
		switch a.K {
		case VSlice:
			st.env[ins] = Value{K: VInt, T: a.Len, Ty: types.Typ[types.Int]}
		case VStr:
			st.env[ins] = Value{K: VInt, T: "(slen " + a.T + ")", Ty: types.Typ[types.Int]}
		case VMap:
			v := x.mapLen(st, a)
			st.env[ins] = v
		case VChan:
			st.env[ins] = st.fresh(types.Typ[types.Int], "chanlen")
			st.assume("(>= " + st.env[ins].T + " 0)")
		case VArray:
			st.env[ins] = Value{K: VInt, T: fmt.Sprint(a.Ty.Underlying().(*types.Array).Len()), Ty: types.Typ[types.Int]}
		case VRef:
			if pt, ok := a.Ty.Underlying().(*types.Pointer); ok {
				if arr, ok := pt.Elem().Underlying().(*types.Array); ok {
					st.env[ins] = Value{K: VInt, T: fmt.Sprint(arr.Len()), Ty: types.Typ[types.Int]}
					return one
				}
			}
			st.unsupported("len of ref")
		default:
			st.unsupported("len of " + a.K.String())
		}
	case "cap":
		a := args[0]
		if a.K != VSlice {
			st.unsupported("cap of " + a.K.String())
		}
		st.env[ins] = Value{K: VInt, T: a.Cap, Ty: types.Typ[types.Int]}
	case "append":
		return x.appendOp(st, ins, c, args)
	case "copy":
		return x.copyOp(st, ins, c, args)
	case "min", "max":
		op := "<="
		if name == "max" {
			op = ">="
		}
		r := args[0]
		for _, a := range args[1:] {
			r = Value{K: r.K, T: fmt.Sprintf("(ite (%s %s %s) %s %s)", op, r.T, a.T, r.T, a.T), Ty: r.Ty}
		}
		st.env[ins] = r
	case "delete":
		return x.mapDelete(st, args[0], args[1])
	case "close":
		return x.chanClose(st, ins.(ssa.Instruction), args[0])
	case "print", "println":
	case "panic":
		x.eng.oblige(x.fx, st, "unreachable", x.fx.siteKey(ins.(ssa.Instruction), ""), "false", "explicit panic reachable", ins.Pos())
		return nil
	case "recover":
		st.env[ins] = Value{K: VIface, T: "0", Ty: ins.Type()}
	default:
		st.unsupported("builtin " + name)
	}
	return one
}

func elemKeyOf(t types.Type) (string, types.Type) {
	et := t.Underlying().(*types.Slice).Elem()
	return "elem:" + typeKey(et), et
}

// appendOp forks into the in-place and the reallocating case.
func (x *Exec) appendOp(st *State, ins ssa.Value, c *ssa.CallCommon, args []Value) []*State {
	s := args[0]
	if s.K != VSlice {
		st.unsupported("append to non-slice")
	}
	key, et := elemKeyOf(s.Ty)
	ek := kindOf(et)
	src := args[1]
	var n string
	switch src.K {
	case VSlice:
		n = src.Len
	case VStr:
		n = "(slen " + src.T + ")"
	default:
		st.unsupported("append of " + src.K.String())
	}
	newLen := "(+ " + s.Len + " " + n + ")"
	// where do the appended elements come from: single-element case is a 1-slice over a fresh array
	writeElems := func(t *State, arr, off string) {
		if ek >= VSlice {
			if ek == VStruct || ek == VSlice {
				x.copyAggregate(t, et, key, src, arr, "(+ "+off+" "+s.Len+")", n)
				return
			}
			t.unsupported("append of aggregate elements")
		}
		h := t.heapTermIn(t.heap, key, 2, scalarSort(ek))
		na := t.freshName("arr")
		t.declare(na, "(Array Int "+scalarSort(ek)+")")
		base := "(+ " + off + " " + s.Len + ")"
		// unchanged outside the appended range
		t.assume(fmt.Sprintf("(forall ((i Int)) (! (=> (or (< i %s) (>= i (+ %s %s))) (= (select %s i) (select (select %s %s) i))) :pattern ((select %s i))))", base, base, n, na, h, arr, na))
		if src.K == VSlice {
			t.assume(mkQuant("forall", "qi", "Int", fmt.Sprintf("(and (<= 0 qi) (< qi %s))", n), fmt.Sprintf("(= (select %s (+ %s qi)) (select (select %s %s) (+ %s qi)))", na, base, h, src.Arr, src.Off)))
			// single element: make it ground
			t.assume(fmt.Sprintf("(=> (>= %s 1) (= (select %s %s) (select (select %s %s) %s)))", n, na, base, h, src.Arr, src.Off))
		} else {
			t.assume(mkQuant("forall", "qi", "Int", fmt.Sprintf("(and (<= 0 qi) (< qi %s))", n), fmt.Sprintf("(= (select %s (+ %s qi)) (sat %s qi))", na, base, src.T)))
		}
		t.heapSet(key, fmt.Sprintf("(store %s %s %s)", h, arr, na))
	}
	// in place
	a := st
	b := st.clone()
	a.assume(fmt.Sprintf("(<= %s %s)", newLen, s.Cap))
	if insI, ok := ins.(ssa.Instruction); ok {
		x.frameCheck(a, insI, key, s.Arr, "", "elements appended in place")
	}
	writeElems(a, s.Arr, s.Off)
	a.env[ins] = Value{K: VSlice, Arr: s.Arr, Off: s.Off, Len: newLen, Cap: s.Cap, Ty: s.Ty}
	// realloc
	b.assume(fmt.Sprintf("(> %s %s)", newLen, s.Cap))
	ref := b.alloc(types.NewArray(et, 0))
	if ek < VSlice {
		// copy old contents
		h := b.heapTermIn(b.heap, key, 2, scalarSort(ek))
		na := b.freshName("arr")
		b.declare(na, "(Array Int "+scalarSort(ek)+")")
		b.assume(fmt.Sprintf("(forall ((i Int)) (! (=> (and (<= 0 i) (< i %s)) (= (select %s i) (select (select %s %s) (+ %s i)))) :pattern ((select %s i))))", s.Len, na, h, s.Arr, s.Off, na))
		b.heapSet(key, fmt.Sprintf("(store %s %s %s)", h, ref.T, na))
	} else if ek == VStruct || ek == VSlice {
		x.copyAggregate(b, et, key, s, ref.T, "0", s.Len)
	}
	nc := b.fresh(types.Typ[types.Int], "newcap")
	b.assume(fmt.Sprintf("(>= %s %s)", nc.T, newLen))
	writeElems(b, ref.T, "0")
	b.env[ins] = Value{K: VSlice, Arr: ref.T, Off: "0", Len: newLen, Cap: nc.T, Ty: s.Ty}
	x.fx.paths++
	return []*State{a, b}
}

// copyAggregate copies n elements of an aggregate element type leaf by leaf.
func (x *Exec) copyAggregate(t *State, et types.Type, key string, src Value, dstArr, dstOff, n string) {
	var leaves func(ty types.Type, k string)
	leaves = func(ty types.Type, k string) {
		switch kindOf(ty) {
		case VStruct:
			s := ty.Underlying().(*types.Struct)
			for i := 0; i < s.NumFields(); i++ {
				leaves(s.Field(i).Type(), k+"."+fieldName(s, i))
			}
		case VSlice:
			for _, c := range []string{"#arr", "#off", "#len", "#cap"} {
				x.copyLeaf(t, k+c, "Int", src, dstArr, dstOff, n)
			}
		case VArray, VTuple:
			t.unsupported("copy of nested array elements")
		default:
			x.copyLeaf(t, k, scalarSort(kindOf(ty)), src, dstArr, dstOff, n)
		}
	}
	leaves(et, key)
}

func (x *Exec) copyLeaf(t *State, key, sort string, src Value, dstArr, dstOff, n string) {
	h := t.heapTermIn(t.heap, key, 2, sort)
	na := t.freshName("arr")
	t.declare(na, "(Array Int "+sort+")")
	t.assume(fmt.Sprintf("(forall ((i Int)) (! (=> (or (< i %s) (>= i (+ %s %s))) (= (select %s i) (select (select %s %s) i))) :pattern ((select %s i))))", dstOff, dstOff, n, na, h, dstArr, na))
	t.assume(mkQuant("forall", "qi", "Int", fmt.Sprintf("(and (<= 0 qi) (< qi %s))", n), fmt.Sprintf("(= (select %s (+ %s qi)) (select (select %s %s) (+ %s qi)))", na, dstOff, h, src.Arr, src.Off)))
	t.assume(fmt.Sprintf("(=> (>= %s 1) (= (select %s %s) (select (select %s %s) %s)))", n, na, dstOff, h, src.Arr, src.Off))
	t.heapSet(key, fmt.Sprintf("(store %s %s %s)", h, dstArr, na))
}

// copyOp models copy(dst, src) with memmove semantics.
func (x *Exec) copyOp(st *State, ins ssa.Value, c *ssa.CallCommon, args []Value) []*State {
	dst, src := args[0], args[1]
	if dst.K != VSlice {
		st.unsupported("copy to non-slice")
	}
	key, et := elemKeyOf(dst.Ty)
	ek := kindOf(et)
	var srcLen string
	if src.K == VSlice {
		srcLen = src.Len
	} else if src.K == VStr {
		srcLen = "(slen " + src.T + ")"
	} else {
		st.unsupported("copy from " + src.K.String())
	}
	n := st.fresh(types.Typ[types.Int], "ncopy")
	st.assume(fmt.Sprintf("(= %s (ite (<= %s %s) %s %s))", n.T, dst.Len, srcLen, dst.Len, srcLen))
	if ek >= VSlice {
		if (ek == VStruct || ek == VSlice) && src.K == VSlice {
			x.copyAggregate(st, et, key, src, dst.Arr, dst.Off, n.T)
			st.env[ins] = n
			return []*State{st}
		}
		st.unsupported("copy of aggregate elements")
	}
	h := st.heapTermIn(st.heap, key, 2, scalarSort(ek))
	na := st.freshName("arr")
	st.declare(na, "(Array Int "+scalarSort(ek)+")")
	st.assume(fmt.Sprintf("(forall ((i Int)) (! (=> (or (< i %s) (>= i (+ %s %s))) (= (select %s i) (select (select %s %s) i))) :pattern ((select %s i))))", dst.Off, dst.Off, n.T, na, h, dst.Arr, na))
	if src.K == VSlice {
		st.assume(mkQuant("forall", "qi", "Int", fmt.Sprintf("(and (<= 0 qi) (< qi %s))", n.T), fmt.Sprintf("(= (select %s (+ %s qi)) (select (select %s %s) (+ %s qi)))", na, dst.Off, h, src.Arr, src.Off)))
	} else {
		st.assume(mkQuant("forall", "qi", "Int", fmt.Sprintf("(and (<= 0 qi) (< qi %s))", n.T), fmt.Sprintf("(= (select %s (+ %s qi)) (sat %s qi))", na, dst.Off, src.T)))
	}
	st.heapSet(key, fmt.Sprintf("(store %s %s %s)", h, dst.Arr, na))
	x.frozenCheck(st, ins.(ssa.Instruction), dst, "0", n.T)
	st.env[ins] = n
	return []*State{st}
}

// ---- maps ----

func mapKeys(t types.Type) (mk string, kk VK, vt types.Type) {
	m := t.Underlying().(*types.Map)
	return "map:" + typeKey(t), kindOf(m.Key()), m.Elem()
}

func (x *Exec) mapHeaps(st *State, mv Value) (dom, key string, ksort string, vt types.Type) {
	mk, kk, vt := mapKeys(mv.Ty)
	if kk >= VSlice {
		st.unsupported("map with aggregate key")
	}
	ksort = scalarSort(kk)
	st.fx.eng.mu.Lock()
	if _, ok := st.fx.eng.heapSorts[mk+"#dom"]; !ok {
		st.fx.eng.heapSorts[mk+"#dom"] = heapSort{1, "(Array " + ksort + " Bool)"}
	}
	st.fx.eng.mu.Unlock()
	dom = st.heapTermIn(st.heap, mk+"#dom", 1, "(Array "+ksort+" Bool)")
	return dom, mk, ksort, vt
}

func (x *Exec) mapValAddr(st *State, mk string, mv Value, ksort string, vt types.Type) func(k string) Value {
	vk := kindOf(vt)
	if vk >= VSlice {
		return nil
	}
	vs := "(Array " + ksort + " " + scalarSort(vk) + ")"
	h := st.heapTermIn(st.heap, mk+"#val", 1, vs)
	return func(k string) Value {
		v := Value{K: vk, T: fmt.Sprintf("(select (select %s %s) %s)", h, mv.T, k), Ty: vt}
		return v
	}
}

// mapSliceVal: the slice stored under key k in a slice-valued map (header words kept in four heaps)
func (x *Exec) mapSliceVal(st *State, h *HeapView, mk string, mv Value, ksort string, vt types.Type, k string) Value {
	sel := func(c string) string {
		t := st.heapTermIn(h, mk+"#val."+c, 1, "(Array "+ksort+" Int)")
		return fmt.Sprintf("(select (select %s %s) %s)", t, mv.T, k)
	}
	return Value{K: VSlice, Arr: sel("arr"), Off: sel("off"), Len: sel("len"), Cap: sel("cap"), Ty: vt}
}

func (x *Exec) mapLookup(st *State, ins *ssa.Lookup, mv, kv Value) []*State {
	dom, mk, ksort, vt := x.mapHeaps(st, mv)
	in := fmt.Sprintf("(select (select %s %s) %s)", dom, mv.T, kv.T)
	var res Value
	if get := x.mapValAddr(st, mk, mv, ksort, vt); get != nil {
		hv := get(kv.T)
		z := st.zero(vt)
		res = Value{K: hv.K, T: fmt.Sprintf("(ite %s %s %s)", in, hv.T, z.T), Ty: vt}
		st.assumeTypeInv(hv)
	} else if kindOf(vt) == VSlice {
		// slice-valued map: the four header words are kept per key; an absent key reads as nil
		hv := x.mapSliceVal(st, st.heap, mk, mv, ksort, vt, kv.T)
		st.assumeTypeInv(hv)
		sel := func(a string) string { return fmt.Sprintf("(ite %s %s 0)", in, a) }
		res = Value{K: VSlice, Arr: sel(hv.Arr), Off: sel(hv.Off), Len: sel(hv.Len), Cap: sel(hv.Cap), Ty: vt}
	} else {
		res = st.fresh(vt, "mapval")
	}
	if ins.CommaOk {
		st.env[ins] = Value{K: VTuple, Fs: []Value{res, {K: VBool, T: in, Ty: types.Typ[types.Bool]}}, Ty: ins.Type()}
	} else {
		st.env[ins] = res
	}
	return []*State{st}
}

func (x *Exec) mapLen(st *State, mv Value) Value {
	mk, _, _ := mapKeys(mv.Ty)
	h := st.heapTermIn(st.heap, mk+"#len", 1, "Int")
	v := Value{K: VInt, T: "(select " + h + " " + mv.T + ")", Ty: types.Typ[types.Int]}
	st.assume("(and (>= " + v.T + " 0) (<= " + v.T + " 140737488355328))") // (a map cannot hold more entries than bytes of address space)
	return v
}

func (x *Exec) mapUpdate(st *State, ins *ssa.MapUpdate) []*State {
	mv := x.get(st, ins.Map)
	kv := x.get(st, ins.Key)
	vv := x.get(st, ins.Value)
	x.panicObl(st, ins, "nilmap", "(not (= "+mv.T+" 0))", "assignment to entry in nil map")
	dom, mk, ksort, vt := x.mapHeaps(st, mv)
	x.frameCheck(st, ins, mk, mv.T, "", "map "+mk)
	in := fmt.Sprintf("(select (select %s %s) %s)", dom, mv.T, kv.T)
	lh := st.heapTermIn(st.heap, mk+"#len", 1, "Int")
	st.heapSet(mk+"#len", fmt.Sprintf("(store %s %s (+ (select %s %s) (ite %s 0 1)))", lh, mv.T, lh, mv.T, in))
	st.heapSet(mk+"#dom", fmt.Sprintf("(store %s %s (store (select %s %s) %s true))", dom, mv.T, dom, mv.T, kv.T))
	vk := kindOf(vt)
	if vk < VSlice {
		if vv.K == VAddr {
			vv = st.addrToRef(vv)
		}
		vs := "(Array " + ksort + " " + scalarSort(vk) + ")"
		h := st.heapTermIn(st.heap, mk+"#val", 1, vs)
		st.heapSet(mk+"#val", fmt.Sprintf("(store %s %s (store (select %s %s) %s %s))", h, mv.T, h, mv.T, kv.T, vv.T))
	} else if vk == VSlice && vv.K == VSlice {
		for _, c := range [][2]string{{"arr", vv.Arr}, {"off", vv.Off}, {"len", vv.Len}, {"cap", vv.Cap}} {
			h := st.heapTermIn(st.heap, mk+"#val."+c[0], 1, "(Array "+ksort+" Int)")
			st.heapSet(mk+"#val."+c[0], fmt.Sprintf("(store %s %s (store (select %s %s) %s %s))", h, mv.T, h, mv.T, kv.T, c[1]))
		}
	}
	return []*State{st}
}

func (x *Exec) mapDelete(st *State, mv, kv Value) []*State {
	dom, mk, _, _ := x.mapHeaps(st, mv)
	in := fmt.Sprintf("(select (select %s %s) %s)", dom, mv.T, kv.T)
	lh := st.heapTermIn(st.heap, mk+"#len", 1, "Int")
	st.heapSet(mk+"#len", fmt.Sprintf("(store %s %s (- (select %s %s) (ite %s 1 0)))", lh, mv.T, lh, mv.T, in))
	st.heapSet(mk+"#dom", fmt.Sprintf("(store %s %s (store (select %s %s) %s false))", dom, mv.T, dom, mv.T, kv.T))
	return []*State{st}
}

func (x *Exec) makeMap(st *State, ins *ssa.MakeMap) Value {
	r := st.freshName("newmap")
	st.declare(r, "Int")
	st.assume(fmt.Sprintf("(and (= %s %s) (> %s 0))", r, st.brk, r))
	nb := st.freshName("brk")
	st.declare(nb, "Int")
	st.assume(fmt.Sprintf("(= %s (+ %s 1))", nb, st.brk))
	st.brk = nb
	mv := Value{K: VMap, T: r, Ty: ins.Type()}
	mk, kk, _ := mapKeys(ins.Type())
	if kk < VSlice {
		ksort := scalarSort(kk)
		dom, _, _, _ := x.mapHeaps(st, mv)
		st.heapSet(mk+"#dom", fmt.Sprintf("(store %s %s ((as const (Array %s Bool)) false))", dom, r, ksort))
		lh := st.heapTermIn(st.heap, mk+"#len", 1, "Int")
		st.heapSet(mk+"#len", fmt.Sprintf("(store %s %s 0)", lh, r))
	}
	return mv
}

// ---- range / next ----

func (x *Exec) rangeInit(st *State, ins *ssa.Range) []*State {
	xv := x.get(st, ins.X)
	it := st.alloc(types.Typ[types.Int]) // iterator identity; cell:int holds nothing useful
	h := st.heapTermIn(st.heap, "ghost:iterpos", 1, "Int")
	st.heapSet("ghost:iterpos", fmt.Sprintf("(store %s %s 0)", h, it.T))
	if _, isMap := ins.X.Type().Underlying().(*types.Map); isMap {
		// a new iteration has produced no key yet
		_, kk, _ := mapKeys(ins.X.Type())
		ksort := scalarSort(kk)
		vh := st.heapTermIn(st.heap, "ghost:visited:"+ksort, 1, "(Array "+ksort+" Bool)")
		st.heapSet("ghost:visited:"+ksort, fmt.Sprintf("(store %s %s ((as const (Array %s Bool)) false))", vh, it.T, ksort))
	}
	v := Value{K: VRef, T: it.T, Ty: ins.Type(), Fs: []Value{xv}}
	st.env[ins] = v
	return []*State{st}
}

func (x *Exec) rangeNext(st *State, ins *ssa.Next) []*State {
	it := x.get(st, ins.Iter)
	rng, _ := ins.Iter.(*ssa.Range)
	if rng == nil {
		st.unsupported("next on unknown iterator")
	}
	xv := x.get(st, rng.X)
	tup := ins.Type().(*types.Tuple)
	okv := st.fresh(types.Typ[types.Bool], "next.ok")
	if ins.IsString {
		h := st.heapTermIn(st.heap, "ghost:iterpos", 1, "Int")
		p := "(select " + h + " " + it.T + ")"
		st.assume("(>= " + p + " 0)")
		st.assume(fmt.Sprintf("(= %s (< %s (slen %s)))", okv.T, p, xv.T))
		k := st.fresh(types.Typ[types.Int], "next.k")
		st.assume(fmt.Sprintf("(= %s %s)", k.T, p))
		r := st.fresh(types.Typ[types.Rune], "next.r")
		w := st.fresh(types.Typ[types.Int], "next.w")
		st.assume(fmt.Sprintf("(=> %s (and (<= 1 %s) (<= %s 4) (<= (+ %s %s) (slen %s)) (ite (< (sat %s %s) 128) (and (= %s 1) (= %s (sat %s %s))) (>= %s 128))))", okv.T, w.T, w.T, p, w.T, xv.T, xv.T, p, w.T, r.T, xv.T, p, r.T))
		st.assume(fmt.Sprintf("(=> %s (and (= %s (utf8_rune %s %s)) (= %s (utf8_width %s %s))))", okv.T, r.T, xv.T, p, w.T, xv.T, p))
		st.heapSet("ghost:iterpos", fmt.Sprintf("(store %s %s (ite %s (+ %s %s) %s))", h, it.T, okv.T, p, w.T, p))
		st.env[ins] = Value{K: VTuple, Fs: []Value{okv, k, r}, Ty: tup}
		return []*State{st}
	}
	// map iteration: an arbitrary present key
	dom, mk, ksort, vt := x.mapHeaps(st, xv)
	kt := xv.Ty.Underlying().(*types.Map).Key()
	k := st.fresh(kt, "next.key")
	st.assume(fmt.Sprintf("(=> %s (select (select %s %s) %s))", okv.T, dom, xv.T, k.T))
	// visited-set ghost: the key was not visited before, and is now
	vh := st.heapTermIn(st.heap, "ghost:visited:"+ksort, 1, "(Array "+ksort+" Bool)")
	st.assume(fmt.Sprintf("(=> %s (not (select (select %s %s) %s)))", okv.T, vh, it.T, k.T))
	st.assume(fmt.Sprintf("(=> (not %s) (forall ((k %s)) (! (=> (select (select %s %s) k) (select (select %s %s) k)) :pattern ((select (select %s %s) k)))))", okv.T, ksort, dom, xv.T, vh, it.T, vh, it.T))
	st.heapSet("ghost:visited:"+ksort, fmt.Sprintf("(store %s %s (store (select %s %s) %s true))", vh, it.T, vh, it.T, k.T))
	// the key handed out last (contracts name it lastkey_in(n): the loop body may ignore the key)
	lh := st.heapTermIn(st.heap, "ghost:lastkey:"+ksort, 1, ksort)
	st.heapSet("ghost:lastkey:"+ksort, fmt.Sprintf("(store %s %s (ite %s %s (select %s %s)))", lh, it.T, okv.T, k.T, lh, it.T))
	var v Value
	if get := x.mapValAddr(st, mk, xv, ksort, vt); get != nil {
		v = get(k.T)
		st.assumeTypeInv(v)
	} else {
		v = st.fresh(vt, "next.val")
	}
	st.env[ins] = Value{K: VTuple, Fs: []Value{okv, k, v}, Ty: tup}
	return []*State{st}
}

// ---- concurrency primitives (ghost protocol state only; no interleavings) ----

func (x *Exec) chanRecv(st *State, ins *ssa.UnOp, ch Value) []*State {
	rh := st.heapTermIn(st.heap, "ghost:chan_recvs", 1, "Int")
	et := ch.Ty.Underlying().(*types.Chan).Elem()
	v := st.fresh(et, "recv")
	// chan_recvs counts the values actually received (a receive that reports !ok, from a closed
	// and drained channel, delivers nothing)
	inc := "1"
	if ins.CommaOk {
		ok := st.fresh(types.Typ[types.Bool], "recv.ok")
		st.env[ins] = Value{K: VTuple, Fs: []Value{v, ok}, Ty: ins.Type()}
		inc = "(ite " + ok.T + " 1 0)"
	} else {
		st.env[ins] = v
	}
	st.heapSet("ghost:chan_recvs", fmt.Sprintf("(store %s %s (+ (select %s %s) %s))", rh, ch.T, rh, ch.T, inc))
	return []*State{st}
}

func (x *Exec) chanSend(st *State, ins *ssa.Send) []*State {
	ch := x.get(st, ins.Chan)
	h := st.heapTermIn(st.heap, "ghost:chan_closed", 1, "Bool")
	x.panicObl(st, ins, "protocol", fmt.Sprintf("(not (select %s %s))", h, ch.T), "send on closed channel")
	nh := st.heapTermIn(st.heap, "ghost:chan_sends", 1, "Int")
	st.heapSet("ghost:chan_sends", fmt.Sprintf("(store %s %s (+ (select %s %s) 1))", nh, ch.T, nh, ch.T))
	// the value sent last on a channel of strings (contracts: chan_last_str(c))
	if v := x.get(st, ins.X); v.K == VStr {
		lh := st.heapTermIn(st.heap, "ghost:chan_last_str", 1, "Str")
		st.heapSet("ghost:chan_last_str", fmt.Sprintf("(store %s %s %s)", lh, ch.T, v.T))
	}
	return []*State{st}
}

func (x *Exec) chanClose(st *State, ins ssa.Instruction, ch Value) []*State {
	h := st.heapTermIn(st.heap, "ghost:chan_closed", 1, "Bool")
	x.panicObl(st, ins, "protocol", fmt.Sprintf("(and (not (= %s 0)) (not (select %s %s)))", ch.T, h, ch.T), "close of nil or closed channel")
	st.heapSet("ghost:chan_closed", fmt.Sprintf("(store %s %s true)", h, ch.T))
	return []*State{st}
}

func (x *Exec) goStmt(st *State, fn *ssa.Function, ins *ssa.Go) []*State {
	gh := st.heapTermIn(st.heap, "ghost:go_started", 1, "Int")
	st.heapSet("ghost:go_started", fmt.Sprintf("(store %s 0 (+ (select %s 0) 1))", gh, gh))
	// the spawned function runs concurrently: its effects are not part of this path.
	// Everything it may write is unknown from here on.
	x.eng.mu.Lock()
	x.eng.goSites[x.fx.name] = append(x.eng.goSites[x.fx.name], ins)
	x.eng.mu.Unlock()
	return []*State{st}
}

func (x *Exec) selectStmt(st *State, ins *ssa.Select) []*State {
	// result: (index int, recvOk bool, r_0 T_0, ... )
	tup := ins.Type().(*types.Tuple)
	v := st.fresh(tup, "select")
	n := len(ins.States)
	lo := 0
	if !ins.Blocking {
		lo = -1
	}
	st.assume(fmt.Sprintf("(and (<= %d %s) (< %s %d))", lo, v.Fs[0].T, v.Fs[0].T, n))
	st.env[ins] = v
	return []*State{st}
}

func (x *Exec) frozenCheck(st *State, ins ssa.Instruction, dst Value, lo, hi string) {
	key, _ := elemKeyOf(dst.Ty)
	x.frameCheck(st, ins, key, dst.Arr, "", "elements of the copy destination")
}
