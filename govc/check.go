package main

import (
	"encoding/json"
	"fmt"
	"os"
	"os/exec"
	"path/filepath"
	"runtime"
	"sort"
	"strconv"
	"strings"
	"time"

	"golang.org/x/tools/go/ssa"
)

// PropConfig is /verif/props/<id>.json.
type PropConfig struct {
	ID          string   `json:"id"`
	Packages    []string `json:"packages"`  // packages to load
	Functions   []string `json:"functions"` // functions under contract (full names); must all have contracts
	Sweep       []string `json:"sweep"`     // functions verified without a contract of their own (panic-class obligations only)
	SweepPkgs   []string `json:"sweep_packages"`
	SweepSkip   []string `json:"sweep_skip"`
	PrivatePkgs []string `json:"private_packages"` // packages whose `private` declarations are checked
	Lemmas      []string `json:"lemmas"`           // lemma names proved for this property
	// replay drivers: function full name (or obligation prefix) -> driver
	Replay map[string]ReplayDriver `json:"replay"`
	// bounded stand-ins: run in thorough tier (and when a function drifts)
	Bounded         []BoundedCheck `json:"bounded"`
	Tables          []TableCheck   `json:"tables"`
	Assumptions     []string       `json:"assumptions"`
	TrustedBase     []string       `json:"trusted_base"`
	MinObl          int            `json:"min_obligations"`
	QuickMs         int            `json:"quick_timeout_ms"`
	InferClosurePre bool           `json:"infer_closure_pre"`
	InferLoopInv    bool           `json:"infer_loop_inv"`
	StagePurity     bool           `json:"stage_purity"`
	OrderFns        []string       `json:"order_functions"` // functions whose output must not depend on map iteration order
	FlagRules       []FlagRule     `json:"flag_rules"`      // configuration fields read only to guard one call
	PurityPkgs      []string       `json:"purity_packages"` // every stage closure of these packages gets the purity rule (no symbolic execution)
	// functions under contract whose anonymous functions must all be under contract too ("*": every
	// listed function): a closure added to such a function is code outside the proof and is
	// reported as <closure>/contract/applies
	Closed     []string `json:"closed"`
	ClosedSkip []string `json:"closed_skip"`
}

type ReplayDriver struct {
	Pkg  string `json:"pkg"`  // package dir relative to repo, e.g. pkg/stringSplitter
	File string `json:"file"` // test file under /verif/replay/, injected by overlay
	Test string `json:"test"` // test name
	Race bool   `json:"race"` // build the test binary with the race detector
}

type BoundedCheck struct {
	Name  string `json:"name"`
	Pkg   string `json:"pkg"`
	File  string `json:"file"`
	Test  string `json:"test"`
	Bound string `json:"bound"`
	Race  bool   `json:"race"`
}

type KnownFinding struct {
	Property   string `json:"property"`
	Obligation string `json:"obligation"`
	Status     string `json:"status"` // recorded | fixed
	What       string `json:"what"`
	Input      string `json:"input"`
	Commit     string `json:"commit,omitempty"`
}

func loadKnownFindings() []KnownFinding {
	var out []KnownFinding
	data, err := os.ReadFile(filepath.Join(verifDir(), "known-findings.jsonl"))
	if err != nil {
		return nil
	}
	for _, l := range strings.Split(string(data), "\n") {
		l = strings.TrimSpace(l)
		if l == "" || strings.HasPrefix(l, "#") || strings.HasPrefix(l, "fixed:") {
			continue
		}
		var k KnownFinding
		if json.Unmarshal([]byte(l), &k) == nil {
			out = append(out, k)
		}
	}
	return out
}

// FlagRule: in Function the struct field Field is read only to decide whether Callee is applied.
type FlagRule struct {
	Function string `json:"function"`
	Field    string `json:"field"`
	Callee   string `json:"callee"`
}

func runCheck(args []string) int {
	if len(args) < 1 {
		fmt.Fprintln(os.Stderr, "usage: govc check <id> [quick|thorough]")
		return 2
	}
	id := args[0]
	tier := "quick"
	if len(args) > 1 {
		tier = args[1]
	}
	if t := os.Getenv("VERIF_TIER"); t != "" && len(args) < 2 {
		tier = t
	}
	seed := 1
	if s := os.Getenv("VERIF_SEED"); s != "" {
		if v, err := strconv.Atoi(s); err == nil {
			seed = v
		}
	}
	t0 := time.Now()
	var cfg PropConfig
	data, err := os.ReadFile(filepath.Join(verifDir(), "props", id+".json"))
	if err != nil {
		fmt.Fprintln(os.Stderr, "no property config:", err)
		return 3
	}
	if err := json.Unmarshal(data, &cfg); err != nil {
		fmt.Fprintln(os.Stderr, "bad property config:", err)
		return 3
	}
	e := newEngine()
	if err := e.load(cfg.Packages); err != nil {
		// the tree does not build: nothing can be said about the property
		fmt.Fprintln(os.Stderr, "load:", err)
		return 3
	}
	var drift []string
	nContract := 0
	e.inferClosures = cfg.InferClosurePre
	timeout := 4000
	if cfg.QuickMs > 0 {
		timeout = cfg.QuickMs
	}
	all := false
	if tier == "thorough" {
		timeout *= 8
		all = true
	}
	outDir := filepath.Join(verifDir(), "out", "vc", id)
	os.RemoveAll(outDir)
	// work list: functions under contract, then swept functions; executed in order of closure
	// nesting depth so that the facts a closure may assume about its captured cells (class
	// "infer", proved at the creation site in the enclosing function) are decided first
	type work struct {
		fn    *ssa.Function
		name  string
		sweep bool
	}
	var works []work
	for _, name := range cfg.Functions {
		if nn, ok := e.rebound[name]; ok {
			name = nn
		}
		f := e.findFunction(name)
		if f == nil {
			drift = append(drift, name+": function not found in the current tree")
			continue
		}
		if e.cs.Funcs[name] == nil && !(f.Origin() != nil && e.cs.Funcs[funcFullName(f.Origin())] != nil) {
			drift = append(drift, name+": no contract")
			continue
		}
		nContract++
		works = append(works, work{f, name, false})
	}
	if os.Getenv("VERIF_CLOSED_REPORT") != "" { // development aid: list every unlisted closure
		cfg.Closed = []string{"*"}
	}
	if len(cfg.Closed) > 0 {
		listed := map[string]bool{}
		for _, n := range cfg.Functions {
			listed[n] = true
		}
		for _, n := range cfg.ClosedSkip {
			listed[n] = true
		}
		closed := cfg.Closed
		if len(closed) == 1 && closed[0] == "*" {
			closed = cfg.Functions
		}
		for _, name := range closed {
			f := e.findFunction(name)
			if f == nil {
				continue
			}
			for _, a := range f.AnonFuncs {
				if n := funcFullName(a); !listed[n] {
					if os.Getenv("VERIF_CLOSED_REPORT") != "" {
						fmt.Println("closed-report:", n)
						continue
					}
					drift = append(drift, n+": anonymous function of "+name+" (under contract) is itself not under contract")
				}
			}
		}
	}
	skip := map[string]bool{}
	for _, s := range cfg.SweepSkip {
		skip[s] = true
	}
	done := map[string]bool{}
	for _, n := range cfg.Functions {
		done[n] = true
	}
	var sweepFns []*ssa.Function
	for _, name := range cfg.Sweep {
		if f := e.findFunction(name); f != nil {
			sweepFns = append(sweepFns, f)
		} else {
			drift = append(drift, name+": sweep function not found")
		}
	}
	for _, p := range cfg.SweepPkgs {
		sweepFns = append(sweepFns, e.allFunctions(p)...)
	}
	for _, f := range sweepFns {
		n := funcFullName(f)
		if done[n] || skip[n] || genericBody(f) {
			continue
		}
		done[n] = true
		works = append(works, work{f, n, true})
	}
	if e.inferClosures {
		// a closure's inferred preconditions are proved in its enclosing function: bring the
		// enclosing functions under (sweep) verification too
		for i := 0; i < len(works); i++ {
			if p := works[i].fn.Parent(); p != nil {
				n := funcFullName(p)
				if !done[n] && !genericBody(p) {
					done[n] = true
					works = append(works, work{p, n, true})
				}
			}
		}
	}
	only := os.Getenv("VERIF_ONLY") // development aid: restrict the work list (evidence is not written)
	if only != "" {
		var kept []work
		for _, w := range works {
			for _, o := range strings.Split(only, ",") {
				if strings.Contains(w.name, o) {
					kept = append(kept, w)
					break
				}
			}
		}
		works = kept
	}
	depthOf := func(f *ssa.Function) int {
		d := 0
		for p := f.Parent(); p != nil; p = p.Parent() {
			d++
		}
		return d
	}
	maxDepth := 0
	for _, w := range works {
		if d := depthOf(w.fn); d > maxDepth {
			maxDepth = d
		}
	}
	if !e.inferClosures {
		maxDepth = -1
	}
	e.inferLoops = cfg.InferLoopInv
	for d := 0; d <= maxDepth || d == 0; d++ {
		if e.inferLoops {
			var fns []*ssa.Function
			sw := map[*ssa.Function]bool{}
			for _, w := range works {
				if maxDepth >= 0 && depthOf(w.fn) != d {
					continue
				}
				fns = append(fns, w.fn)
				sw[w.fn] = w.sweep
			}
			e.inferLoopInvariants(fns, sw, func() { e.discharge(outDir, timeout, false, runtime.NumCPU()) })
		}
		for _, w := range works {
			if maxDepth >= 0 && depthOf(w.fn) != d {
				continue
			}
			if err := e.verifyFunction(w.fn, w.sweep); err != nil && !w.sweep {
				drift = append(drift, w.name+": "+err.Error())
			}
			e.checkPooledInit(w.fn)
			if cfg.StagePurity {
				e.checkStagePurity(w.fn)
			}
		}
		if maxDepth >= 0 && d < maxDepth {
			e.discharge(outDir, timeout, all, runtime.NumCPU())
		}
	}
	for _, n := range cfg.OrderFns {
		if f := e.findFunction(n); f != nil {
			e.checkMapOrderIndependence(f)
		} else {
			drift = append(drift, n+": function not found in the current tree")
		}
	}
	for _, fr := range cfg.FlagRules {
		if f := e.findFunction(fr.Function); f != nil {
			e.checkFlagConfined(f, fr.Field, fr.Callee)
		} else {
			drift = append(drift, fr.Function+": function not found in the current tree")
		}
	}
	for _, p := range cfg.PurityPkgs {
		for _, f := range e.allFunctions(p) {
			if !genericBody(f) {
				e.checkStagePurity(f)
			}
		}
	}
	for _, ln := range cfg.Lemmas {
		e.proveLemma(ln)
	}
	for _, tc := range cfg.Tables {
		e.checkTable(tc)
	}
	for _, p := range cfg.PrivatePkgs {
		e.checkPrivate(p)
	}
	e.checkGlobalInvMapsReadOnly()
	e.proveIndLemmas()
	e.discharge(outDir, timeout, all, runtime.NumCPU())

	// ---- classify ----
	known := loadKnownFindings()
	knownBy := map[string]KnownFinding{}
	for _, k := range known {
		if k.Property == id && k.Status != "fixed" {
			knownBy[k.Obligation] = k
		}
	}
	total, discharged, knownObl := 0, 0, 0
	inferProved, inferRejected := 0, 0
	var failed []*Obligation
	var vacuous []string
	classCount := map[string]int{}
	solverWins := map[string]int{}
	var solverMs int64
	type sample struct {
		Name   string `json:"obligation"`
		Paths  int    `json:"paths"`
		Hyps   int    `json:"hypotheses"`
		Result string `json:"result"`
		Solver string `json:"solver"`
		Ms     int64  `json:"ms"`
	}
	var samples []sample
	var slow []sample
	for _, name := range e.oblOrder {
		ob := e.obls[name]
		if ob.Class == "canary" {
			if e.vacuous(ob) {
				vacuous = append(vacuous, name)
			}
			continue
		}
		if ob.Class == "infer" {
			// candidate closure preconditions: the proved ones were assumed by the closure, the
			// others were not assumed by anybody; neither is an obligation of the property
			if ob.status() == "unsat" {
				inferProved++
			} else {
				inferRejected++
			}
			continue
		}
		if _, isKnown := knownBy[ob.Name]; isKnown && ob.status() != "unsat" {
			// a recorded genuine defect: reported as KNOWN-FINDING, not part of the proved set
			failed = append(failed, ob)
			knownObl++
			continue
		}
		total++
		classCount[ob.Class]++
		res := ob.status()
		var ms int64
		hy := 0
		sv := ""
		for _, vc := range ob.VCs {
			ms += vc.Ms
			solverMs += vc.Ms
			if len(vc.Hyps) > hy {
				hy = len(vc.Hyps)
			}
			sv = vc.Solver
			solverWins[strings.TrimSuffix(vc.Solver, "(cached)")]++
		}
		s := sample{name, len(ob.VCs), hy, res, sv, ms}
		if res == "unsat" {
			discharged++
			if len(samples) < 6 && ob.Class != "nilderef" {
				samples = append(samples, s)
			}
		} else {
			failed = append(failed, ob)
			samples = append(samples, s)
		}
		slow = append(slow, s)
	}
	sort.Slice(slow, func(i, j int) bool { return slow[i].Ms > slow[j].Ms })
	if len(slow) > 5 {
		slow = slow[:5]
	}

	exit := 0
	var lines []string
	violations := 0
	replayDir := filepath.Join(verifDir(), "out", "replay", id)
	os.RemoveAll(replayDir)
	os.MkdirAll(replayDir, 0o755)
	var knownHit []string
	var illFormed []string
	for _, ob := range failed {
		if k, ok := knownBy[ob.Name]; ok {
			lines = append(lines, fmt.Sprintf("KNOWN-FINDING: property=%s %s [%s] (%s)", id, k.What, ob.Name, k.Input))
			knownHit = append(knownHit, ob.Name)
			continue
		}
		if errText := solverRejected(ob); errText != "" {
			// every solver rejected the VC text itself (ill-formed SMT: a clash between spec
			// definitions, an encoder bug): that says nothing about the code - the machinery is
			// broken, which is exit 3, never a VIOLATION
			illFormed = append(illFormed, ob.Name+": "+errText)
			continue
		}
		violations++
		path, reproduced := e.replay(&cfg, ob, replayDir)
		if reproduced {
			lines = append(lines, fmt.Sprintf("VIOLATION property=%s replay=%s", id, path))
		} else {
			lines = append(lines, fmt.Sprintf("VIOLATION property=%s replay=%s no-failing-input-found", id, path))
		}
		exit = 1
	}
	// bounded stand-ins (thorough tier, or for drifted functions)
	var boundedRes []map[string]interface{}
	if true { // bounded stand-ins are cheap: they run in both tiers (labelled bounded, never counted as proved)
		for _, b := range cfg.Bounded {
			raceFlag = b.Race
			ok, out := runGoTest(b.Pkg, b.File, b.Test, "", seed, 600)
			raceFlag = false
			boundedRes = append(boundedRes, map[string]interface{}{"name": b.Name, "bound": b.Bound, "passed": ok, "label": "bounded"})
			if !ok {
				p := filepath.Join(replayDir, "bounded_"+safeName.ReplaceAllString(b.Name, "_")+".txt")
				os.WriteFile(p, []byte(out), 0o644)
				lines = append(lines, fmt.Sprintf("VIOLATION property=%s replay=%s", id, p))
				violations++
				exit = 1
			}
		}
	}
	// A function listed under contract that can no longer be brought under its contract (the
	// contract does not bind to the code any more, or the code left the supported subset) fails
	// the obligation "<function>/contract/applies": everything proved about it is gone.
	listed := map[string]bool{}
	for _, f := range cfg.Functions {
		listed[f] = true
	}
	var lost []string
	for f, u := range e.unsup {
		if listed[f] {
			lost = append(lost, f+": "+strings.Join(dedupe(u), "; "))
		}
	}
	lost = append(lost, drift...)
	sort.Strings(lost)
	for _, d := range lost {
		name := d
		if i := strings.Index(d, ": "); i > 0 {
			name = d[:i]
		}
		p := filepath.Join(replayDir, safeName.ReplaceAllString(name, "_")+"_contract_applies.json")
		rec := map[string]interface{}{"property": id, "obligation": name + "/contract/applies", "class": "contract",
			"description":     "the contract of this function no longer applies to the code in the working tree, so none of its obligations can be generated",
			"verifier_output": d, "reproduced": false}
		js, _ := json.MarshalIndent(rec, "", " ")
		os.WriteFile(p, js, 0o644)
		// the function's replay driver (if any) looks for an input on which the changed code misbehaves
		suffix := " no-failing-input-found"
		var drv *ReplayDriver
		best := -1
		for k, dv := range cfg.Replay {
			if strings.HasPrefix(name, k) && len(k) > best {
				dd := dv
				drv, best = &dd, len(k)
			}
		}
		if drv != nil {
			raceFlag = drv.Race
			_, text := runGoTest(drv.Pkg, drv.File, drv.Test, p, 1, 240)
			raceFlag = false
			rec["replay_output"] = tail(text, 4000)
			for _, l := range strings.Split(text, "\n") {
				if strings.Contains(l, "REPRODUCED") {
					rec["reproduced"] = true
					rec["failing_input"] = strings.TrimSpace(l)
					suffix = ""
					break
				}
			}
			js, _ = json.MarshalIndent(rec, "", " ")
			os.WriteFile(p, js, 0o644)
		}
		lines = append(lines, fmt.Sprintf("VIOLATION property=%s replay=%s%s", id, p, suffix))
		violations++
		exit = 1
	}
	// machinery sanity
	broken := ""
	if len(vacuous) > 0 {
		broken = "vacuous hypotheses (canary proved): " + strings.Join(vacuous, ", ")
	}
	if len(e.cs.SmtDup) > 0 {
		broken = "spec function(s) defined more than once in the loaded contract files: " + strings.Join(dedupe(e.cs.SmtDup), ", ")
	}
	if len(illFormed) > 0 {
		n := len(illFormed)
		if n > 3 {
			illFormed = illFormed[:3]
		}
		broken = fmt.Sprintf("%d verification conditions were rejected by every solver as ill-formed: %s", n, strings.Join(illFormed, " | "))
	}
	if total == 0 || (cfg.MinObl > 0 && total < cfg.MinObl && len(drift) == 0) {
		broken = fmt.Sprintf("only %d obligations generated (expected at least %d)", total, cfg.MinObl)
	}
	for _, name := range e.oblOrder {
		for _, vc := range e.obls[name].VCs {
			if vc.Result == "disagree" {
				broken = "solver disagreement on " + name
			}
		}
	}

	// ---- evidence ----
	var unsup []string
	for f, u := range e.unsup {
		unsup = append(unsup, f+": "+strings.Join(dedupe(u), "; "))
	}
	sort.Strings(unsup)
	var ext []string
	for k := range e.usedExt {
		ext = append(ext, k)
	}
	sort.Strings(ext)
	var unk []string
	for k := range e.unknownCalls {
		unk = append(unk, k)
	}
	sort.Strings(unk)
	sort.Strings(e.funcsDone)
	var axioms []string
	for _, l := range e.cs.Lemmas {
		if l.Assume {
			axioms = append(axioms, l.Name+": "+l.C.Text)
		}
	}
	assumptions := append([]string{}, cfg.Assumptions...)
	assumptions = append(assumptions,
		"pointer receivers and the Go type invariants of parameters (0<=len<=cap, integer ranges) hold at entry",
		"integers are exact 64-bit wrap-around; float64 is treated as mathematical reals (no rounding, NaN, Inf)",
		"interior pointers (*int into a struct field) do not alias separately allocated cells")
	assumptions = append(assumptions, e.assumptions...)
	for _, x := range ext {
		assumptions = append(assumptions, "extern contract assumed: "+x)
	}
	var ap []string
	for k := range e.assumedPosts {
		ap = append(ap, k)
	}
	sort.Strings(ap)
	for _, k := range ap {
		assumptions = append(assumptions, "postcondition assumed (meaning of a primitive, not provable from its body): "+k)
	}
	trusted := append([]string{"go/types + go/ssa (x/tools v0.29.0) SSA construction", "govc VC generator (/verif/govc)", "z3 4.8.12, z3 5.1.0, cvc5 1.0 (portfolio; unsat from one, sat from none)"}, cfg.TrustedBase...)
	cov := map[string]interface{}{
		"obligations":              total,
		"discharged":               discharged,
		"checker_cmd":              fmt.Sprintf("/verif/bin/govc check %s %s", id, tier),
		"trusted_base":             trusted,
		"functions_under_contract": nContract,
		"functions_verified":       e.funcsDone,
		"obligation_classes":       classCount,
		"solver_wins":              solverWins,
		"solver_ms_total":          solverMs,
		"slowest":                  slow,
		"samples":                  samples,
		"extern_contracts_used":    ext,
		"unknown_callees_havocked": unk,
		"out_of_reach":             unsup,
		"contract_drift":           drift,
		"known_findings_active":    knownHit,
		"known_finding_obligations_excluded_from_the_proved_set": knownObl,
		"bounded_standins":        boundedRes,
		"spec_axioms":             axioms,
		"contract_files":          e.cs.Files,
		"floats_as_reals":         true,
		"vacuity_canaries_proved": vacuous,
	}
	if e.inferClosures || e.inferLoops {
		var iu []string
		for k := range e.inferredUsed {
			iu = append(iu, k)
		}
		sort.Strings(iu)
		cov["inferred_closure_preconditions"] = map[string]interface{}{
			"method":                   "candidate facts over never-reassigned captured cells, each proved at the closure's creation site (obligation class infer) before the closure may assume it",
			"candidates_proved":        inferProved,
			"candidates_rejected":      inferRejected,
			"assumed_at_closure_entry": iu,
		}
	}
	ev := map[string]interface{}{
		"property_id": id,
		"tier":        tier,
		"seed":        seed,
		"level":       "proof",
		"coverage":    cov,
		"assumptions": assumptions,
		"wall_s":      time.Since(t0).Seconds(),
		"violations":  violations,
	}
	os.MkdirAll(filepath.Join(verifDir(), "evidence"), 0o755)
	buf, _ := json.MarshalIndent(ev, "", " ")
	if only == "" {
		os.WriteFile(filepath.Join(verifDir(), "evidence", id+".json"), buf, 0o644)
	} else {
		for _, name := range e.oblOrder {
			if ob := e.obls[name]; ob.Class == "infer" {
				fmt.Printf("  infer %-8s %s\n", ob.status(), name)
			}
		}
		for _, ob := range failed {
			fmt.Printf("  FAILED %s (%s)\n", ob.Name, ob.status())
		}
	}

	for _, l := range lines {
		fmt.Println(l)
	}
	fmt.Printf("property=%s tier=%s functions=%d obligations=%d discharged=%d failed=%d known=%d out_of_reach=%d wall=%.1fs\n", id, tier, len(e.funcsDone), total, discharged, len(failed), len(knownHit), len(unsup), time.Since(t0).Seconds())
	for _, u := range unsup {
		fmt.Println("  out-of-reach:", u)
	}
	if broken != "" {
		fmt.Println("BROKEN:", broken)
		if exit == 0 {
			return 3
		}
	}
	return exit
}

// solverRejected: the obligation is undecided only because every solver answered with an error
// (not sat, unknown or a time-out) on each of its open VCs; returns the first error line.
func solverRejected(ob *Obligation) string {
	msg := ""
	for _, vc := range ob.VCs {
		if vc.Result == "unsat" {
			continue
		}
		if vc.Result == "sat" || vc.Solver == "" {
			return ""
		}
		for _, p := range strings.Split(vc.Solver, ",") {
			if !strings.HasSuffix(strings.TrimSpace(p), "=error") {
				return ""
			}
		}
		if msg == "" {
			msg = "solver error"
			for _, l := range strings.Split(vc.Output, "\n") {
				if strings.Contains(l, "error") {
					msg = strings.TrimSpace(l)
					break
				}
			}
		}
	}
	return msg
}

// replay writes the replay file for a failed obligation and runs the driver (if any).
func (e *Engine) replay(cfg *PropConfig, ob *Obligation, dir string) (string, bool) {
	path := filepath.Join(dir, safeName.ReplaceAllString(ob.Name, "_"))
	if len(path) > 180 {
		path = path[:180]
	}
	path += ".json"
	var fvc *VC
	for _, vc := range ob.VCs {
		if vc.Result != "unsat" {
			fvc = vc
			if vc.Result == "sat" {
				break
			}
		}
	}
	model := map[string]string{}
	if fvc.Result == "sat" || fvc.Candidate {
		for k, v := range parseModel(fvc.Model) {
			if strings.HasPrefix(k, "p:") || strings.HasPrefix(k, "fv:") || strings.HasPrefix(k, "phi:") || strings.HasPrefix(k, "ret:") || strings.HasPrefix(k, "H0:") {
				if len(v) < 400 {
					model[k] = v
				}
			}
		}
	}
	out := fvc.Output
	if len(out) > 6000 {
		out = out[:6000] + "\n...(truncated)"
	}
	rec := map[string]interface{}{
		"property":                           cfg.ID,
		"obligation":                         ob.Name,
		"class":                              ob.Class,
		"function":                           ob.Func,
		"source":                             ob.Pos,
		"description":                        ob.Desc,
		"path_blocks":                        fvc.Trace,
		"result":                             fvc.Result,
		"solver":                             fvc.Solver,
		"solver_output":                      out,
		"model":                              model,
		"model_is_candidate_from_relaxation": fvc.Candidate,
		"reproduced":                         false,
	}
	write := func() {
		buf, _ := json.MarshalIndent(rec, "", " ")
		os.WriteFile(path, buf, 0o644)
	}
	write()
	// find driver: longest key that prefixes the obligation name
	var drv *ReplayDriver
	best := -1
	for k, d := range cfg.Replay {
		if strings.HasPrefix(ob.Name, k) && len(k) > best {
			dd := d
			drv, best = &dd, len(k)
		}
	}
	if drv == nil {
		rec["replay_note"] = "no replay driver for this function"
		write()
		return path, false
	}
	raceFlag = drv.Race
	ok, text := runGoTest(drv.Pkg, drv.File, drv.Test, path, 1, 240)
	raceFlag = false
	_ = ok
	rec["replay_output"] = tail(text, 4000)
	repro := strings.Contains(text, "REPRODUCED")
	rec["reproduced"] = repro
	if repro {
		for _, l := range strings.Split(text, "\n") {
			if strings.Contains(l, "REPRODUCED") {
				rec["failing_input"] = strings.TrimSpace(l)
				break
			}
		}
	}
	write()
	return path, repro
}

func tail(s string, n int) string {
	if len(s) > n {
		return s[len(s)-n:]
	}
	return s
}

var raceFlag bool

// runGoTest runs an in-package test injected through -overlay against the repository.
func runGoTest(pkg, file, test, replayFile string, seed int, timeoutS int) (bool, string) {
	// all driver files of the same replay directory are injected together (they share helpers)
	srcs, _ := filepath.Glob(filepath.Join(verifDir(), "replay", filepath.Dir(file), "*_test.go"))
	rep := map[string]string{}
	for _, src := range srcs {
		rep[filepath.Join(repoDir(), pkg, "zz_verif_"+filepath.Base(src))] = src
	}
	ov := map[string]map[string]string{"Replace": rep}
	tmp, err := os.CreateTemp("", "govc-ov-*.json")
	if err != nil {
		return false, err.Error()
	}
	defer os.Remove(tmp.Name())
	buf, _ := json.Marshal(ov)
	tmp.Write(buf)
	tmp.Close()
	argv := []string{"test", "-overlay", tmp.Name(), "-vet=off", "-count=1", "-timeout", fmt.Sprintf("%ds", timeoutS), "-run", "^" + test + "$", "-v"}
	if raceFlag {
		argv = append(argv, "-race")
	}
	argv = append(argv, "./"+pkg)
	cmd := exec.Command("go", argv...)
	cmd.Dir = repoDir()
	cmd.Env = append(os.Environ(), "GOFLAGS=-mod=mod", "GOPROXY=off", "GOSUMDB=off", "GOTOOLCHAIN=local",
		"VERIF_REPLAY_FILE="+replayFile, fmt.Sprintf("VERIF_SEED=%d", seed))
	out, err := cmd.CombinedOutput()
	return err == nil, string(out)
}

// proveLemma turns a lemma into a stand-alone obligation.
func (e *Engine) proveLemma(name string) {
	for _, l := range e.cs.Lemmas {
		if l.Name != name || l.Assume {
			continue
		}
		// lemmas are closed formulas over spec functions: evaluate in an empty state
		fx := &FuncExec{eng: e, name: "lemma", modKeys: map[string]bool{}, havocGens: map[string]bool{}}
		st := &State{fx: fx, declSet: map[string]bool{}, pcSet: map[string]bool{}, ghostV: map[string]Value{}}
		st.heap = &HeapView{m: map[string]string{}, base: "0"}
		st.old = st.heap
		st.brk = "|brk0|"
		st.declare("|brk0|", "Int")
		x := &Exec{eng: e, fx: fx}
		func() {
			defer func() {
				if r := recover(); r != nil {
					if u, ok := r.(unsupportedErr); ok {
						e.unsup["lemma "+name] = append(e.unsup["lemma "+name], u.msg)
						return
					}
					panic(r)
				}
			}()
			sc := x.specCtx(st, st.heap, st.old, map[string]Value{})
			sc.noFn = true
			k := 0
			for _, cj := range e.cs.goals(l.C.E) {
				k++
				g := sc.evalBool(cj)
				fx.name = "lemma:" + name
				e.oblige(fx, st, "lemma", fmt.Sprintf("%d", k), g, cj.String(), 0)
			}
		}()
		return
	}
	e.unsup["lemma "+name] = append(e.unsup["lemma "+name], "lemma not found")
}

// proveIndLemmas emits base and step obligations for every induction lemma of the loaded
// contract files (the lemma itself is excluded from its own proof).
func (e *Engine) proveIndLemmas() {
	for _, il := range e.cs.IndLemmas {
		fx := &FuncExec{eng: e, name: "lemma:" + il.Name, modKeys: map[string]bool{}, havocGens: map[string]bool{}}
		st := &State{fx: fx, declSet: map[string]bool{}, pcSet: map[string]bool{}, ghostV: map[string]Value{}, env: map[ssa.Value]Value{}}
		st.heap = &HeapView{m: map[string]string{}, base: "0"}
		st.old = st.heap
		// declare the variables as constants
		vt := parseSx(il.Vars)
		for _, kv := range vt.kids {
			if len(kv.kids) == 2 {
				st.declare(kv.kids[0].String(), kv.kids[1].String())
			}
		}
		claim := parseSx(il.Claim)
		base := claim.substAtom(il.Var, parseSx(il.From)).String()
		next := claim.substAtom(il.Var, parseSx("(+ "+il.Var+" 1)")).String()
		e.funcsDone = append(e.funcsDone, fx.name)
		e.oblige(fx, st, "lemma", "base", base, "induction base of "+il.Name, 0)
		st2 := st.clone()
		st2.assume(fmt.Sprintf("(>= %s %s)", il.Var, il.From))
		st2.assume(il.Claim)
		e.oblige(fx, st2, "lemma", "step", next, "induction step of "+il.Name, 0)
		e.lemmaSelf[fx.name] = fmt.Sprintf("(assert (forall %s (! (=> (>= %s %s) %s) :pattern %s)))", il.Vars, il.Var, il.From, il.Claim, il.Pattern)
	}
}
