package main

import (
	"flag"
	"fmt"
	"go/token"
	"os"
	"path/filepath"
	"runtime"
	"sort"
	"strings"

	"golang.org/x/tools/go/packages"
	"golang.org/x/tools/go/ssa"
	"golang.org/x/tools/go/ssa/ssautil"
)

func repoDir() string {
	if d := os.Getenv("VERIF_REPO"); d != "" {
		return d
	}
	return "/repo"
}

func verifDir() string {
	if d := os.Getenv("VERIF_DIR"); d != "" {
		return d
	}
	return "/verif"
}

func newEngine() *Engine {
	return &Engine{pkgs: map[string]*ssa.Package{}, cs: NewContracts(), heapSorts: map[string]heapSort{}, obls: map[string]*Obligation{},
		srcCache: map[string][]string{}, strLits: map[string]string{}, unsup: map[string][]string{}, maxPaths: 4096, usedExt: map[string]bool{},
		typeIDs: map[string]int{}, unknownCalls: map[string]bool{}, goSites: map[string][]*ssa.Go{}, rebound: map[string]string{}, lemmaSelf: map[string]string{}, implCache: map[string][]string{}, assumedPosts: map[string]bool{}}
}

// load loads packages (import paths relative to the module, e.g. "rare/pkg/readahead") from the
// current working tree of the repository and builds SSA for them.
func (e *Engine) load(pkgPaths []string) error {
	os.Setenv("GOFLAGS", "-mod=mod")
	os.Setenv("GOPROXY", "off")
	os.Setenv("GOSUMDB", "off")
	os.Setenv("GOTOOLCHAIN", "local")
	fset := token.NewFileSet()
	cfg := &packages.Config{Mode: packages.LoadAllSyntax, Dir: repoDir(), Fset: fset, Tests: false}
	pkgs, err := packages.Load(cfg, pkgPaths...)
	if err != nil {
		return err
	}
	nerr := 0
	packages.Visit(pkgs, nil, func(p *packages.Package) {
		for _, er := range p.Errors {
			fmt.Fprintln(os.Stderr, "load error:", er)
			nerr++
		}
	})
	if nerr > 0 {
		return fmt.Errorf("%d package load errors", nerr)
	}
	packages.Visit(pkgs, nil, func(p *packages.Package) { e.loaded = append(e.loaded, p) })
	prog, spkgs := ssautil.AllPackages(pkgs, ssa.InstantiateGenerics|ssa.GlobalDebug)
	prog.Build()
	e.prog = prog
	e.fset = fset
	for i, sp := range spkgs {
		if sp != nil {
			e.pkgs[pkgs[i].PkgPath] = sp
		}
	}
	// all loaded packages of this module
	for _, sp := range prog.AllPackages() {
		if strings.HasPrefix(sp.Pkg.Path(), "rare/") || sp.Pkg.Path() == "rare" {
			e.pkgs[sp.Pkg.Path()] = sp
		}
	}
	// contracts: library externs, then one file per repo package
	lib, _ := filepath.Glob(filepath.Join(verifDir(), "contracts", "*.vc"))
	sort.Strings(lib)
	for _, f := range lib {
		if err := e.cs.LoadContractFile(f, ""); err != nil {
			return err
		}
	}
	var paths []string
	for p := range e.pkgs {
		paths = append(paths, p)
	}
	sort.Strings(paths)
	for _, p := range paths {
		rel := strings.TrimPrefix(strings.TrimPrefix(p, "rare"), "/")
		f := filepath.Join(repoDir(), rel, "verif_contracts.go")
		if _, err := os.Stat(f); err == nil {
			if err := e.cs.LoadContractFile(f, p); err != nil {
				return err
			}
		}
	}
	e.bindFingerprints()
	e.inferInitOnlyGlobals()
	return nil
}

// bindFingerprints re-binds contracts carrying an `at "<text>"` fingerprint to the function of
// their package whose source contains that text (closure ordinals such as init$5 shift when an
// unrelated closure is added; the fingerprint does not).
func (e *Engine) bindFingerprints() {
	var names []string
	for n, c := range e.cs.Funcs {
		if c.At != "" && c.Kind == "func" {
			names = append(names, n)
		}
	}
	sort.Strings(names)
	for _, n := range names {
		c := e.cs.Funcs[n]
		var hits []*ssa.Function
		for _, f := range e.allFunctions(c.Pkg) {
			syn := f.Syntax()
			if syn == nil {
				continue
			}
			p0, p1 := e.fset.Position(syn.Pos()), e.fset.Position(syn.End())
			lines := e.fileLines(p0.Filename)
			txt := ""
			for l := p0.Line; l <= p1.Line && l-1 < len(lines); l++ {
				txt += lines[l-1] + "\n"
			}
			if strings.Contains(txt, c.At) {
				// prefer the innermost function containing the text
				inner := false
				for _, a := range f.AnonFuncs {
					if as := a.Syntax(); as != nil {
						q0, q1 := e.fset.Position(as.Pos()), e.fset.Position(as.End())
						t2 := ""
						for l := q0.Line; l <= q1.Line && l-1 < len(lines); l++ {
							t2 += lines[l-1] + "\n"
						}
						if strings.Contains(t2, c.At) {
							inner = true
						}
					}
				}
				if !inner {
					hits = append(hits, f)
				}
			}
		}
		if len(hits) == 1 {
			nn := funcFullName(hits[0])
			if nn != n {
				if _, clash := e.cs.Funcs[nn]; !clash {
					delete(e.cs.Funcs, n)
					c.Name = nn
					e.cs.Funcs[nn] = c
					e.rebound[n] = nn
				}
			}
		}
	}
}

func (e *Engine) fileLines(name string) []string {
	lines, ok := e.srcCache[name]
	if !ok {
		data, err := os.ReadFile(name)
		if err == nil {
			lines = strings.Split(string(data), "\n")
		}
		e.srcCache[name] = lines
	}
	return lines
}

// allFunctions lists the functions (including closures and methods) of a package.
func (e *Engine) allFunctions(pkgPath string) []*ssa.Function {
	sp := e.pkgs[pkgPath]
	if sp == nil {
		return nil
	}
	var out []*ssa.Function
	seen := map[*ssa.Function]bool{}
	var add func(f *ssa.Function)
	add = func(f *ssa.Function) {
		if f == nil || seen[f] {
			return
		}
		seen[f] = true
		out = append(out, f)
		for _, a := range f.AnonFuncs {
			add(a)
		}
	}
	for fn := range ssautil.AllFunctions(e.prog) {
		if fn.Pkg == sp && fn.Synthetic == "" {
			add(fn)
		} else if fn.Pkg == nil && fn.Origin() != nil && fn.Origin().Pkg == sp {
			add(fn) // generic instance
		}
	}
	sort.Slice(out, func(i, j int) bool { return funcFullName(out[i]) < funcFullName(out[j]) })
	return out
}

func (e *Engine) findFunction(full string) *ssa.Function {
	for p := range e.pkgs {
		if strings.HasPrefix(full, p+".") {
			for _, f := range e.allFunctions(p) {
				if funcFullName(f) == full {
					return f
				}
			}
		}
	}
	return nil
}

func main() {
	if len(os.Args) < 2 {
		fmt.Fprintln(os.Stderr, "usage: govc verify|check ...")
		os.Exit(2)
	}
	switch os.Args[1] {
	case "verify":
		devVerify(os.Args[2:])
	case "check":
		os.Exit(runCheck(os.Args[2:]))
	case "selftest":
		os.Exit(runSelftest(os.Args[2:]))
	default:
		fmt.Fprintln(os.Stderr, "unknown command", os.Args[1])
		os.Exit(2)
	}
}

// devVerify: govc verify -pkgs a,b -funcs f,g [-sweep] [-v]
func devVerify(args []string) {
	fs := flag.NewFlagSet("verify", flag.ExitOnError)
	pkgsF := fs.String("pkgs", "", "comma separated package import paths")
	funcsF := fs.String("funcs", "", "comma separated full function names (default: all with contracts)")
	sweep := fs.Bool("sweep", false, "verify every function of the packages (panic-class obligations)")
	verbose := fs.Bool("v", false, "verbose")
	timeout := fs.Int("t", 5000, "solver timeout ms")
	out := fs.String("out", "/tmp/govc-out", "output dir for smt files")
	fs.Parse(args)
	e := newEngine()
	e.verbose = *verbose
	pk := strings.Split(*pkgsF, ",")
	if err := e.load(pk); err != nil {
		fmt.Fprintln(os.Stderr, "load:", err)
		os.Exit(3)
	}
	var fns []*ssa.Function
	if *funcsF != "" {
		for _, n := range strings.Split(*funcsF, ",") {
			f := e.findFunction(n)
			if f == nil {
				fmt.Fprintln(os.Stderr, "function not found:", n)
				os.Exit(3)
			}
			fns = append(fns, f)
		}
	} else {
		for _, p := range pk {
			for _, f := range e.allFunctions(p) {
				if *sweep || e.cs.Funcs[funcFullName(f)] != nil {
					fns = append(fns, f)
				}
			}
		}
	}
	for _, f := range fns {
		if err := e.verifyFunction(f, *sweep); err != nil {
			fmt.Fprintln(os.Stderr, err)
		}
	}
	os.RemoveAll(*out)
	for _, p := range pk {
		e.checkPrivate(p)
	}
	e.proveIndLemmas()
	e.discharge(*out, *timeout, false, runtime.NumCPU())
	e.printSummary(*verbose)
}

func (e *Engine) printSummary(verbose bool) {
	total, ok := 0, 0
	for _, name := range e.oblOrder {
		ob := e.obls[name]
		if ob.Class == "canary" {
			if e.vacuous(ob) {
				fmt.Printf("  VACUOUS %s\n", name)
			}
			continue
		}
		total++
		res := ob.status()
		if res == "unsat" {
			ok++
			if verbose {
				fmt.Printf("  ok   %s (%d paths)\n", name, len(ob.VCs))
			}
			continue
		}
		fmt.Printf("  FAIL %s [%s] %s\n        %s\n", name, res, ob.Pos, ob.Desc)
		for _, vc := range ob.VCs {
			if vc.Result != "unsat" {
				fmt.Printf("        path %s: %s by %s (%d ms)\n", vc.Trace, vc.Result, vc.Solver, vc.Ms)
				if vc.Result == "sat" && verbose {
					m := parseModel(vc.Model)
					var ks []string
					for k := range m {
						if strings.HasPrefix(k, "p:") || strings.HasPrefix(k, "fv:") || strings.HasPrefix(k, "phi:") {
							ks = append(ks, k)
						}
					}
					sort.Strings(ks)
					for _, k := range ks {
						fmt.Printf("          %s = %s\n", k, m[k])
					}
				}
				break
			}
		}
	}
	for f, u := range e.unsup {
		fmt.Printf("  UNSUPPORTED %s: %s\n", f, strings.Join(dedupe(u), "; "))
	}
	var uk []string
	for k := range e.unknownCalls {
		uk = append(uk, k)
	}
	sort.Strings(uk)
	if verbose {
		for _, k := range uk {
			fmt.Println("  unknown call:", k)
		}
	}
	fmt.Printf("functions: %d, obligations: %d, discharged: %d\n", len(e.funcsDone), total, ok)
}

func dedupe(xs []string) []string {
	seen := map[string]bool{}
	var out []string
	for _, x := range xs {
		if !seen[x] {
			seen[x] = true
			out = append(out, x)
		}
	}
	return out
}

// vacuous: a canary that is refuted. Paired canaries (key / key:pre) only count when the path
// was still feasible before the contract was applied.
func (e *Engine) vacuous(ob *Obligation) bool {
	if strings.HasSuffix(ob.Name, ":pre") {
		return false
	}
	pre := e.obls[ob.Name+":pre"]
	if pre == nil {
		return ob.status() == "unsat"
	}
	for i, vc := range ob.VCs {
		if vc.Result == "unsat" && i < len(pre.VCs) && pre.VCs[i].Result != "unsat" {
			return true
		}
	}
	return false
}

func (ob *Obligation) status() string {
	res := "unsat"
	for _, vc := range ob.VCs {
		if vc.Result != "unsat" {
			if vc.Result == "sat" {
				return "sat"
			}
			res = vc.Result
		}
	}
	return res
}

func runSelftest(args []string) int { fmt.Println("not yet"); return 3 }

// inferInitOnlyGlobals finds package-level variables of the module that are written only by
// the package initialiser and only with obviously non-nil values (constructor calls of an
// allow-list, make, composite literals, closures). Loads of such variables are non-nil.
func (e *Engine) inferInitOnlyGlobals() {
	e.nonNilGlobals = map[string]bool{}
	ctor := map[string]bool{"errors.New": true, "fmt.Errorf": true, "regexp.MustCompile": true, "sync.NewCond": true}
	type info struct {
		bad  bool
		good int
	}
	seen := map[*ssa.Global]*info{}
	for fn := range ssautil.AllFunctions(e.prog) {
		if fn.Pkg == nil || !(strings.HasPrefix(fn.Pkg.Pkg.Path(), "rare/") || fn.Pkg.Pkg.Path() == "rare") {
			continue
		}
		isInit := fn.Name() == "init" && fn.Synthetic != ""
		for _, b := range fn.Blocks {
			for _, ins := range b.Instrs {
				st, ok := ins.(*ssa.Store)
				if !ok {
					continue
				}
				g, ok := st.Addr.(*ssa.Global)
				if !ok {
					continue
				}
				in := seen[g]
				if in == nil {
					in = &info{}
					seen[g] = in
				}
				if !isInit {
					in.bad = true
					continue
				}
				switch v := st.Val.(type) {
				case *ssa.MakeMap, *ssa.MakeClosure, *ssa.MakeInterface, *ssa.Alloc, *ssa.MakeSlice, *ssa.Function, *ssa.MakeChan:
					in.good++
				case *ssa.Slice:
					in.good++
				case *ssa.Call:
					if f, ok := v.Call.Value.(*ssa.Function); ok && ctor[strings.TrimPrefix(f.String(), "")] {
						in.good++
					} else if ok && (strings.HasPrefix(f.Name(), "New") || strings.HasPrefix(f.Name(), "Must")) {
						in.good++
					} else {
						in.bad = true
					}
				default:
					in.bad = true
				}
			}
		}
	}
	for g, in := range seen {
		if !in.bad && in.good > 0 {
			e.nonNilGlobals["global:"+typeKeyPkg(g.Pkg.Pkg)+"."+g.Name()] = true
		}
	}
}
