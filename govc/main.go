package main

import (
	"fmt"

	_ "golang.org/x/tools/go/packages"
	_ "golang.org/x/tools/go/ssa"
	_ "golang.org/x/tools/go/ssa/ssautil"
)

func main() { fmt.Println("ok") }
