package main

import (
	"fmt"
	"go/types"
	"math/big"
	"regexp"
	"strings"
)

type VK int

const (
	VInt VK = iota
	VBool
	VReal
	VStr
	VRef
	VIface
	VFunc
	VMap
	VChan
	VSlice
	VStruct
	VTuple
	VAddr
	VArray // array by value: T is an SMT (Array Int X) term, Len known from type
)

func (k VK) String() string {
	return [...]string{"int", "bool", "real", "str", "ref", "iface", "func", "map", "chan", "slice", "struct", "tuple", "addr", "array"}[k]
}

// Addr is an executor-level address: a root reference plus a typed path.
type Addr struct {
	Root string     // Int term: reference (or global id)
	Key  string     // heap key prefix selected so far (type path)
	Idx  []string   // element indices collected along the path
	Ty   types.Type // pointee type
}

type Closure struct {
	Fn    interface{} // *ssa.Function
	Binds []Value
}

type Value struct {
	K                  VK
	T                  string
	Arr, Off, Len, Cap string
	Fs                 []Value
	A                  *Addr
	Ty                 types.Type
	Clo                *Closure
	Orig               types.Type // pointer type before a conversion through unsafe.Pointer
}

func (v Value) String() string {
	switch v.K {
	case VSlice:
		return fmt.Sprintf("slice(%s,%s,%s,%s)", v.Arr, v.Off, v.Len, v.Cap)
	case VStruct, VTuple:
		var p []string
		for _, f := range v.Fs {
			p = append(p, f.String())
		}
		return "{" + strings.Join(p, ", ") + "}"
	case VAddr:
		return fmt.Sprintf("&%s[%s]%v", v.A.Key, v.A.Root, v.A.Idx)
	}
	return v.T
}

func scalarSort(k VK) string {
	switch k {
	case VBool:
		return "Bool"
	case VReal:
		return "Real"
	case VStr:
		return "Str"
	}
	return "Int"
}

// kindOf maps a Go type to the value kind used by the encoder.
func kindOf(t types.Type) VK {
	switch u := t.Underlying().(type) {
	case *types.Basic:
		info := u.Info()
		switch {
		case info&types.IsBoolean != 0:
			return VBool
		case info&types.IsInteger != 0:
			return VInt
		case info&types.IsFloat != 0:
			return VReal
		case info&types.IsString != 0:
			return VStr
		case u.Kind() == types.UnsafePointer:
			return VRef
		case u.Kind() == types.UntypedNil:
			return VRef
		case info&types.IsComplex != 0:
			return VReal
		}
		return VInt
	case *types.Pointer:
		return VRef
	case *types.Slice:
		return VSlice
	case *types.Struct:
		return VStruct
	case *types.Tuple:
		return VTuple
	case *types.Interface:
		return VIface
	case *types.Signature:
		return VFunc
	case *types.Map:
		return VMap
	case *types.Chan:
		return VChan
	case *types.Array:
		return VArray
	case *types.TypeParam:
		return VIface
	}
	return VInt
}

// typeKey gives a stable textual key for a type (used in heap names).
func typeKey(t types.Type) string {
	s := types.TypeString(t, func(p *types.Package) string {
		path := p.Path()
		path = strings.TrimPrefix(path, "rare/")
		return path
	})
	return aliasRe.ReplaceAllStringFunc(s, func(m string) string {
		if m == "byte" {
			return "uint8"
		}
		return "int32"
	})
}

var aliasRe = regexp.MustCompile(`\b(byte|rune)\b`)

// intRange returns the value range of an integer type.
func intRange(t types.Type) (lo, hi *big.Int, ok bool) {
	b, isb := t.Underlying().(*types.Basic)
	if !isb || b.Info()&types.IsInteger == 0 {
		return nil, nil, false
	}
	bits, signed := 64, true
	switch b.Kind() {
	case types.Int8:
		bits = 8
	case types.Int16:
		bits = 16
	case types.Int32:
		bits = 32
	case types.Int64, types.Int, types.UntypedInt, types.UntypedRune:
		bits = 64
	case types.Uint8:
		bits, signed = 8, false
	case types.Uint16:
		bits, signed = 16, false
	case types.Uint32:
		bits, signed = 32, false
	case types.Uint64, types.Uint, types.Uintptr:
		bits, signed = 64, false
	}
	if b.Kind() == types.UntypedRune {
		bits = 32
	}
	one := big.NewInt(1)
	if signed {
		hi = new(big.Int).Sub(new(big.Int).Lsh(one, uint(bits-1)), one)
		lo = new(big.Int).Neg(new(big.Int).Lsh(one, uint(bits-1)))
	} else {
		lo = big.NewInt(0)
		hi = new(big.Int).Sub(new(big.Int).Lsh(one, uint(bits)), one)
	}
	return lo, hi, true
}

func smtInt(b *big.Int) string {
	if b.Sign() < 0 {
		return "(- " + new(big.Int).Neg(b).String() + ")"
	}
	return b.String()
}

func smtIntS(s string) string {
	b, ok := new(big.Int).SetString(s, 10)
	if !ok {
		return s
	}
	return smtInt(b)
}

// wrap returns a term for x reduced into the range of integer type t, assuming x is the
// result of one +/- of in-range operands (single wrap) when cheap is true, or arbitrary otherwise.
func wrapTerm(x string, t types.Type, cheap bool) string {
	lo, hi, ok := intRange(t)
	if !ok {
		return x
	}
	size := new(big.Int).Add(new(big.Int).Sub(hi, lo), big.NewInt(1))
	if cheap {
		return fmt.Sprintf("(let ((wx!0 %s)) (ite (> wx!0 %s) (- wx!0 %s) (ite (< wx!0 %s) (+ wx!0 %s) wx!0)))", x, smtInt(hi), size, smtInt(lo), size)
	}
	if lo.Sign() == 0 {
		return fmt.Sprintf("(let ((wy!0 %s)) (ite (and (<= 0 wy!0) (<= wy!0 %s)) wy!0 (mod wy!0 %s)))", x, smtInt(hi), size)
	}
	return fmt.Sprintf("(let ((wy!0 %s)) (ite (and (<= %s wy!0) (<= wy!0 %s)) wy!0 (let ((wm!0 (mod wy!0 %s))) (ite (> wm!0 %s) (- wm!0 %s) wm!0))))", x, smtInt(lo), smtInt(hi), size, smtInt(hi), size)
}

func inRange(x string, t types.Type) string {
	lo, hi, ok := intRange(t)
	if !ok {
		return "true"
	}
	return fmt.Sprintf("(and (<= %s %s) (<= %s %s))", smtInt(lo), x, x, smtInt(hi))
}

func and(xs ...string) string {
	var ys []string
	for _, x := range xs {
		if x == "true" || x == "" {
			continue
		}
		if x == "false" {
			return "false"
		}
		ys = append(ys, x)
	}
	if len(ys) == 0 {
		return "true"
	}
	if len(ys) == 1 {
		return ys[0]
	}
	return "(and " + strings.Join(ys, " ") + ")"
}

func or(xs ...string) string {
	var ys []string
	for _, x := range xs {
		if x == "false" || x == "" {
			continue
		}
		if x == "true" {
			return "true"
		}
		ys = append(ys, x)
	}
	if len(ys) == 0 {
		return "false"
	}
	if len(ys) == 1 {
		return ys[0]
	}
	return "(or " + strings.Join(ys, " ") + ")"
}

func not(x string) string {
	if x == "true" {
		return "false"
	}
	if x == "false" {
		return "true"
	}
	if strings.HasPrefix(x, "(not ") && balanced(x[5:len(x)-1]) {
		return x[5 : len(x)-1]
	}
	return "(not " + x + ")"
}

func balanced(s string) bool {
	d := 0
	for i := 0; i < len(s); i++ {
		if s[i] == '(' {
			d++
		} else if s[i] == ')' {
			d--
			if d < 0 {
				return false
			}
		}
	}
	return d == 0
}

func implies(a, b string) string {
	if a == "true" {
		return b
	}
	if b == "true" {
		return "true"
	}
	return "(=> " + a + " " + b + ")"
}

func sym(name string) string {
	name = strings.NewReplacer("|", "!", "\\", "!").Replace(name)
	return "|" + name + "|"
}
