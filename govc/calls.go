package main

import (
	"fmt"
	"go/token"
	"go/types"
	"golang.org/x/tools/go/ssa/ssautil"
	"os"
	"sort"
	"strings"

	"golang.org/x/tools/go/ssa"
)

type callTarget struct {
	kind     string // builtin | contract | inline | unknown
	builtin  string
	contract *FuncContract
	fn       *ssa.Function
	name     string
}

func fullTypeName(t types.Type) string {
	return types.TypeString(t, func(p *types.Package) string { return p.Path() })
}

// resolve decides how a call is treated.
func (x *Exec) resolve(st *State, c *ssa.CallCommon, depth int) callTarget {
	cs := x.eng.cs
	if c.IsInvoke() {
		// interface method: contract "iface <pkgpath>.<Iface>.<Method>"
		name := fullTypeName(c.Value.Type()) + "." + c.Method.Name()
		if k := cs.Funcs[name]; k != nil {
			return callTarget{kind: "contract", contract: k, name: name}
		}
		return callTarget{kind: "unknown", name: name}
	}
	switch v := c.Value.(type) {
	case *ssa.Builtin:
		return callTarget{kind: "builtin", builtin: v.Name(), name: v.Name()}
	case *ssa.Function:
		return x.resolveFn(v, depth)
	case *ssa.MakeClosure:
		return x.resolveFn(v.Fn.(*ssa.Function), depth)
	}
	// dynamic call through a func value: closure known on this path?
	if st != nil {
		if val, ok := st.env[c.Value]; ok && val.Clo != nil {
			if f, ok := val.Clo.Fn.(*ssa.Function); ok {
				t := x.resolveFn(f, depth)
				if t.kind != "unknown" {
					return t
				}
			}
		}
	}
	// contract on the named func type
	name := fullTypeName(c.Value.Type())
	if k := cs.Funcs[name]; k != nil {
		return callTarget{kind: "contract", contract: k, name: name}
	}
	// contract on the struct field the func value is loaded from: "functype <pkg>.<Type>.<field>"
	// (generic types by their origin name)
	if ld, ok := c.Value.(*ssa.UnOp); ok && ld.Op == token.MUL {
		if fa, ok := ld.X.(*ssa.FieldAddr); ok {
			if pt, ok := fa.X.Type().Underlying().(*types.Pointer); ok {
				if nt, ok := pt.Elem().(*types.Named); ok && nt.Obj().Pkg() != nil {
					if stt, ok := nt.Underlying().(*types.Struct); ok {
						fname := nt.Obj().Pkg().Path() + "." + nt.Obj().Name() + "." + stt.Field(fa.Field).Name()
						if k := cs.Funcs[fname]; k != nil {
							return callTarget{kind: "contract", contract: k, name: fname}
						}
					}
				}
			}
		}
	}
	// contract on a func-typed parameter of the enclosing function: "functype <pkg>.<Func>#<param>"
	if pv, ok := c.Value.(*ssa.Parameter); ok && pv.Parent() != nil {
		f := pv.Parent()
		if o := f.Origin(); o != nil {
			f = o
		}
		pname := funcFullName(f) + "#" + pv.Name()
		if k := cs.Funcs[pname]; k != nil {
			return callTarget{kind: "contract", contract: k, name: pname}
		}
	}
	return callTarget{kind: "unknown", name: name}
}

func (x *Exec) resolveFn(f *ssa.Function, depth int) callTarget {
	name := funcFullName(f)
	if k := x.eng.cs.Funcs[name+"@"+x.fx.pkgPath()]; k != nil {
		return callTarget{kind: "contract", contract: k, fn: f, name: name}
	}
	if k := x.eng.cs.Funcs[name]; k != nil {
		return callTarget{kind: "contract", contract: k, fn: f, name: name}
	}
	if o := f.Origin(); o != nil {
		if k := x.eng.cs.Funcs[funcFullName(o)]; k != nil {
			return callTarget{kind: "contract", contract: k, fn: f, name: name}
		}
	}
	if x.inlinable(f, depth) {
		return callTarget{kind: "inline", fn: f, name: name}
	}
	return callTarget{kind: "unknown", fn: f, name: name}
}

func (x *Exec) inlinable(f *ssa.Function, depth int) bool {
	return inlinableFn(f, depth, x.fx.fn)
}

func inlinableFn(f *ssa.Function, depth int, self *ssa.Function) bool {
	if len(f.Blocks) == 0 || depth >= 3 || f == self {
		return false
	}
	if self != nil && self.Name() == "init" && self.Synthetic != "" && len(f.Blocks) > 1 {
		// package initialisers are long straight-line functions: inlining a branching callee would
		// multiply every later obligation by its paths (the callee is verified on its own)
		return false
	}
	// only functions of the repository itself are inlined; library code needs an extern contract
	if n := funcFullName(f); !strings.HasPrefix(n, "rare/") && !strings.HasPrefix(n, "rare.") {
		return false
	}
	n := 0
	for _, b := range f.Blocks {
		n += len(b.Instrs)
		for _, ins := range b.Instrs {
			switch ins.(type) {
			case *ssa.Go, *ssa.Select, *ssa.Defer:
				return false
			}
		}
	}
	if n > 80 {
		return false
	}
	// loop free?
	state := map[*ssa.BasicBlock]int{}
	loop := false
	var dfs func(b *ssa.BasicBlock)
	dfs = func(b *ssa.BasicBlock) {
		state[b] = 1
		for _, s := range b.Succs {
			if state[s] == 0 {
				dfs(s)
			} else if state[s] == 1 {
				loop = true
			}
		}
		state[b] = 2
	}
	dfs(f.Blocks[0])
	return !loop
}

// staticKey computes the heap key prefix written by a store through address value v.
func staticKey(v ssa.Value) string {
	switch a := v.(type) {
	case *ssa.FieldAddr:
		st := a.X.Type().Underlying().(*types.Pointer).Elem().Underlying().(*types.Struct)
		return staticKey(a.X) + "." + st.Field(a.Field).Name()
	case *ssa.IndexAddr:
		switch t := a.X.Type().Underlying().(type) {
		case *types.Slice:
			return "elem:" + typeKey(t.Elem())
		case *types.Pointer:
			if arr, ok := t.Elem().Underlying().(*types.Array); ok {
				return "elem:" + typeKey(arr.Elem())
			}
		}
	case *ssa.Global:
		return "global:" + typeKeyPkg(a.Pkg.Pkg) + "." + a.Name()
	}
	if pt, ok := v.Type().Underlying().(*types.Pointer); ok {
		return rootKey(pt.Elem())
	}
	return "?"
}

// scanMods collects the heap keys a function may write (transitively through inlined callees
// and callee contracts).
func (fx *FuncExec) scanMods(fn *ssa.Function, depth int, seen map[*ssa.Function]bool) {
	if seen[fn] {
		return
	}
	seen[fn] = true
	x := &Exec{eng: fx.eng, fx: fx}
	for _, b := range fn.Blocks {
		for _, ins := range b.Instrs {
			switch ins := ins.(type) {
			case *ssa.Store:
				fx.modKeys[staticKey(ins.Addr)] = true
			case *ssa.MapUpdate:
				fx.modKeys["map:"+typeKey(ins.Map.Type())] = true
			case *ssa.Send:
				fx.modKeys["ghost:chan"] = true
			case ssa.CallInstruction:
				c := ins.Common()
				if _, isGo := ins.(*ssa.Go); isGo {
					continue
				}
				t := x.resolve(nil, c, depth)
				if strings.HasPrefix(t.name, "sync.(*Mutex).") || strings.HasPrefix(t.name, "sync.(*RWMutex).") {
					fx.modKeys["ghost:mu_held"] = true
					continue
				}
				switch t.kind {
				case "builtin":
					switch t.builtin {
					case "append", "copy":
						if sl, ok := c.Args[0].Type().Underlying().(*types.Slice); ok {
							fx.modKeys["elem:"+typeKey(sl.Elem())] = true
						}
					case "delete":
						fx.modKeys["map:"+typeKey(c.Args[0].Type())] = true
					}
				case "contract":
					k := t.contract
					for _, gs := range k.GhostSets {
						if gs.Ghost != "" {
							fx.modKeys["ghost:"+gs.Ghost] = true
						}
						for _, hk := range gs.HavocKeys {
							fx.modKeys[hk] = true
						}
					}
					if !k.HasMod {
						fx.modAll = true
						continue
					}
					for _, loc := range k.Modifies {
						if strings.HasPrefix(strings.TrimSpace(loc), "dyn(") {
							if ps := x.dynPrefixesStatic(k, t, c, loc); ps != nil {
								for _, p := range ps {
									fx.modKeys[p] = true
								}
								continue
							}
						}
						p, ok := x.locPrefixStatic(k, t, c, loc)
						if !ok {
							fx.modAll = true
						} else {
							fx.modKeys[p] = true
						}
					}
				case "inline":
					fx.scanMods(t.fn, depth+1, seen)
				default:
					fx.modAll = true
				}
			}
		}
	}
}

// paramTypes returns names and types of the parameters a contract sees for a call.
func (x *Exec) contractParams(k *FuncContract, t callTarget, c *ssa.CallCommon) ([]string, []types.Type) {
	var names []string
	var tys []types.Type
	sig := c.Signature()
	if t.fn != nil {
		for _, p := range t.fn.Params {
			names = append(names, p.Name())
			tys = append(tys, p.Type())
		}
	} else {
		if c.IsInvoke() {
			names = append(names, "this")
			tys = append(tys, c.Value.Type())
		} else if sig.Recv() != nil {
			names = append(names, "this")
			tys = append(tys, sig.Recv().Type())
		} else if k.Kind == "functype" {
			names = append(names, "this")
			tys = append(tys, c.Value.Type())
		}
		for i := 0; i < sig.Params().Len(); i++ {
			n := sig.Params().At(i).Name()
			if n == "" || n == "_" {
				n = fmt.Sprintf("arg%d", i)
			}
			names = append(names, n)
			tys = append(tys, sig.Params().At(i).Type())
		}
	}
	if len(k.Params) > 0 {
		for i := range names {
			if i < len(k.Params) {
				names[i] = k.Params[i]
			}
		}
	}
	return names, tys
}

// locPrefixStatic maps a modifies location to a heap key prefix using static types only.
func (x *Exec) locPrefixStatic(k *FuncContract, t callTarget, c *ssa.CallCommon, loc string) (string, bool) {
	loc = strings.TrimSpace(loc)
	if loc == "heap" || isWorld(loc) {
		return "", false
	}
	if strings.HasPrefix(loc, "ghost ") {
		g := strings.TrimSpace(strings.TrimPrefix(loc, "ghost "))
		if i := strings.Index(g, "("); i >= 0 {
			g = g[:i]
		}
		return "ghost:" + g, true
	}
	if strings.HasPrefix(loc, "dyn(") {
		return "", false
	}
	if strings.HasPrefix(loc, "global ") {
		return "global:" + strings.TrimSpace(strings.TrimPrefix(loc, "global ")), true
	}
	names, tys := x.contractParams(k, t, c)
	e, err := ParseExpr(strings.Replace(strings.Replace(loc, ".*", ".ALL__", 1), "[..]", "[0]", 1))
	if err != nil {
		return "", false
	}
	var walk func(e *Expr) (types.Type, string, bool)
	walk = func(e *Expr) (types.Type, string, bool) {
		switch e.Op {
		case "ident":
			for i, n := range names {
				if n == e.Name {
					return tys[i], "", true
				}
			}
			return nil, "", false
		case "un:*":
			ty, _, ok := walk(e.Args[0])
			if !ok {
				return nil, "", false
			}
			pt, ok := ty.Underlying().(*types.Pointer)
			if !ok {
				return nil, "", false
			}
			return pt.Elem(), rootKey(pt.Elem()), true
		case "sel":
			ty, pre, ok := walk(e.Args[0])
			if !ok {
				return nil, "", false
			}
			if pt, isP := ty.Underlying().(*types.Pointer); isP {
				ty = pt.Elem()
				pre = rootKey(ty)
			}
			s, isS := ty.Underlying().(*types.Struct)
			if !isS {
				return nil, "", false
			}
			if e.Name == "ALL__" {
				return ty, pre, true
			}
			for i := 0; i < s.NumFields(); i++ {
				if s.Field(i).Name() == e.Name {
					return s.Field(i).Type(), pre + "." + e.Name, true
				}
			}
			return nil, "", false
		case "idx", "slice":
			ty, _, ok := walk(e.Args[0])
			if !ok {
				return nil, "", false
			}
			if sl, isS := ty.Underlying().(*types.Slice); isS {
				return sl.Elem(), "elem:" + typeKey(sl.Elem()), true
			}
			return nil, "", false
		}
		return nil, "", false
	}
	_, pre, ok := walk(e)
	if !ok || pre == "" {
		return "", false
	}
	return pre, true
}

// call executes a call instruction.
func (x *Exec) call(st *State, fn *ssa.Function, ins ssa.Value, c *ssa.CallCommon, top bool) []*State {
	t := x.resolve(st, c, st.depth)
	var args []Value
	if c.IsInvoke() {
		args = append(args, x.get(st, c.Value))
	}
	var clo *Closure
	if !c.IsInvoke() {
		if _, isB := c.Value.(*ssa.Builtin); !isB {
			fv := x.get(st, c.Value)
			clo = fv.Clo
			if t.kind == "contract" && t.contract.Kind == "functype" {
				args = append(args, fv)
			}
			if _, isF := c.Value.(*ssa.Function); !isF {
				if fv.K == VFunc && t.kind != "inline" {
					x.panicObl(st, ins.(ssa.Instruction), "nilcall", "(not (= "+fv.T+" 0))", "call of nil func value")
				}
			}
		}
	}
	for _, a := range c.Args {
		args = append(args, x.get(st, a))
	}
	if c.IsInvoke() {
		x.panicObl(st, ins.(ssa.Instruction), "nilderef", "(not (= "+args[0].T+" 0))", "method call on nil interface")
	}
	if t.fn != nil && t.fn.Signature.Recv() != nil && len(args) > 0 && args[0].K == VRef {
		x.nilCheck(st, ins.(ssa.Instruction), args[0])
	}
	if t.fn != nil && strings.HasPrefix(t.name, "sync.") {
		if insI, ok := ins.(ssa.Instruction); ok && x.mutexCall(st, insI, t.name, args) {
			return []*State{st}
		}
	}
	switch t.kind {
	case "builtin":
		return x.builtin(st, ins, c, t.builtin, args)
	case "contract":
		res := x.applyContract(st, ins.(ssa.Instruction), t, c, args)
		if ins != nil {
			st.env[ins] = res
		}
		return []*State{st}
	case "inline":
		return x.inline(st, ins, t.fn, args, clo)
	}
	// unknown callee: result unconstrained, whole heap havocked
	x.noteUnknown(t.name)
	if insI, ok := ins.(ssa.Instruction); ok {
		x.frameCheck(st, insI, "*", "", "", "the whole heap (unknown callee "+shortName(t.name)+")")
	}
	st.havocAll(t.name)
	x.assumeGlobalInv(st)
	res := st.fresh(c.Signature().Results(), "ret:"+shortName(t.name))
	if c.Signature().Results().Len() == 1 {
		res = res.Fs[0]
	}
	st.env[ins] = res
	return []*State{st}
}

func shortName(n string) string {
	if i := strings.LastIndex(n, "/"); i >= 0 {
		n = n[i+1:]
	}
	return n
}

func (x *Exec) noteUnknown(name string) {
	x.eng.mu.Lock()
	x.eng.unknownCalls[x.fx.name+" -> "+name] = true
	x.eng.mu.Unlock()
}

// inline symbolically executes a small loop-free callee in place.
func (x *Exec) inline(st *State, ins ssa.Value, f *ssa.Function, args []Value, clo *Closure) []*State {
	saved := st.env
	savedDefers := st.defers
	env := map[ssa.Value]Value{}
	for i, p := range f.Params {
		if i < len(args) {
			env[p] = args[i]
		}
	}
	if len(f.FreeVars) > 0 {
		if clo == nil || len(clo.Binds) != len(f.FreeVars) {
			// closure bindings unknown on this path
			for _, fv := range f.FreeVars {
				env[fv] = st.fresh(fv.Type(), "fv:"+fv.Name())
			}
		} else {
			for i, fv := range f.FreeVars {
				env[fv] = clo.Binds[i]
			}
		}
	}
	st.env = env
	st.defers = nil
	st.depth++
	rets := x.walk(st, f, f.Blocks[0], 0, nil, false)
	var out []*State
	for _, r := range rets {
		s := r.st
		s.depth--
		// restore caller env (values are immutable SSA names: the saved map is still valid)
		ne := make(map[ssa.Value]Value, len(saved)+1)
		for k, v := range saved {
			ne[k] = v
		}
		s.env = ne
		s.defers = savedDefers
		if ins != nil {
			switch len(r.vals) {
			case 0:
			case 1:
				s.env[ins] = r.vals[0]
			default:
				s.env[ins] = Value{K: VTuple, Fs: r.vals, Ty: f.Signature.Results()}
			}
		}
		out = append(out, s)
	}
	return out
}

// applyContract: assert requires, havoc modifies, assume ensures.
func (x *Exec) applyContract(st *State, ins ssa.Instruction, t callTarget, c *ssa.CallCommon, args []Value) Value {
	k := t.contract
	k.Used = true
	if k.Kind != "func" {
		x.eng.mu.Lock()
		x.eng.usedExt[k.Name] = true
		x.eng.mu.Unlock()
	}
	names, _ := x.contractParams(k, t, c)
	env := map[string]Value{}
	for i, n := range names {
		if i < len(args) {
			env[n] = args[i]
		}
	}
	// closure free variables are visible by name in closure contracts
	if t.fn != nil && len(t.fn.FreeVars) > 0 {
		var clo *Closure
		if !c.IsInvoke() {
			if v, ok := st.env[c.Value]; ok {
				clo = v.Clo
			}
		}
		for i, fv := range t.fn.FreeVars {
			if clo != nil && i < len(clo.Binds) {
				env[fv.Name()] = clo.Binds[i]
			}
		}
	}
	pre := st.heap.clone()
	sc := x.specCtx(st, st.heap, pre, env)
	sc.pkgPath = k.Pkg
	n := 0
	for _, r := range k.Requires {
		for _, cj := range x.eng.cs.goals(r.E) {
			n++
			g := sc.evalBool(cj)
			if r.Tag == "objinv" && k.Pkg != "" && x.fx.pkgPath() != k.Pkg {
				// object invariant of a type whose fields are unexported: code outside the declaring
				// package cannot break it, so it is not re-proved at foreign call sites (the declaring
				// package's constructor establishes it and each of its methods preserves it: those are
				// obligations of the functions listed under contract; see objinvCheck)
				x.eng.mu.Lock()
				if x.eng.objInvUsed == nil {
					x.eng.objInvUsed = map[string]*FuncContract{}
				}
				x.eng.objInvUsed[t.name+": "+cj.String()] = k
				x.eng.mu.Unlock()
				st.assume(g)
				continue
			}
			if !x.eng.isQuiet(st) {
				x.eng.oblige(x.fx, st, "pre", x.fx.siteKey(ins, fmt.Sprintf("%s#%d", shortName(t.name), n)), g, "precondition of "+t.name+": "+cj.String(), ins.Pos())
			}
			st.assume(g)
		}
	}
	// vacuity canaries come in pairs: the state must be satisfiable before the contract is
	// applied (else the path itself is infeasible) and still satisfiable afterwards
	canaryKey := ""
	if len(k.Ensures) > 0 && !x.eng.isQuiet(st) {
		key := x.fx.siteKey(ins, "after:"+shortName(t.name))
		x.eng.mu.Lock()
		if x.fx.canaryCount == nil {
			x.fx.canaryCount = map[string]int{}
		}
		n := x.fx.canaryCount[key]
		x.fx.canaryCount[key] = n + 1
		x.eng.mu.Unlock()
		if n < 2 {
			canaryKey = key
			x.eng.oblige(x.fx, st, "canary", key+":pre", "false", "vacuity canary (path feasible before the call)", ins.Pos())
		}
	}
	// frame
	if !k.HasMod {
		x.frameCheck(st, ins, "*", "", "", "the whole heap (callee "+shortName(t.name)+" has no modifies clause)")
		st.havocAll(t.name)
		x.assumeGlobalInv(st)
		x.assumeGlobalInv(st)
	} else {
		x.curCallee = t.fn
		for _, loc := range k.Modifies {
			x.calleeFrame(st, ins, sc, loc)
			x.havocLoc(st, sc, loc)
		}
		x.curCallee = nil
		// ghost statements inside the callee's body change those ghosts in ways only its
		// postconditions describe
		for _, gs := range k.GhostSets {
			if gs.At != "" && gs.Ghost != "" {
				st.havocPrefix("ghost:" + gs.Ghost)
			}
			for _, hk := range gs.HavocKeys {
				st.havocPrefix(hk)
			}
		}
	}
	// the callee may allocate: objects it returns as "fresh" lie at or above the old break
	savedCallBrk := st.callBrk
	st.callBrk = st.brk
	nb := st.freshName("brk")
	st.declare(nb, "Int")
	st.assume(fmt.Sprintf("(>= %s %s)", nb, st.brk))
	st.brk = nb
	defer func() { st.callBrk = savedCallBrk }()
	// results
	sig := c.Signature()
	res := st.fresh(sig.Results(), "ret:"+shortName(t.name))
	for i := 0; i < sig.Results().Len(); i++ {
		env[fmt.Sprintf("result%d", i)] = res.Fs[i]
		if nm := sig.Results().At(i).Name(); nm != "" && nm != "_" {
			if _, clash := env[nm]; !clash {
				env[nm] = res.Fs[i]
			}
		}
		if i < len(k.Results) {
			env[k.Results[i]] = res.Fs[i]
		}
	}
	if sig.Results().Len() == 1 {
		env["result"] = res.Fs[0]
	}
	sc2 := x.specCtx(st, st.heap, pre, env)
	sc2.pkgPath = k.Pkg
	x.applyGhostSets(st, k, sc2)
	for _, en := range k.Ensures {
		if os.Getenv("VERIF_DEBUG") != "" {
			fmt.Fprintf(os.Stderr, "assume post of %s in %s: %s (results %v)\n", t.name, x.fx.name, en.Text, sig.Results())
		}
		st.assume(sc2.evalHyp(en.E))
	}
	if canaryKey != "" {
		x.eng.oblige(x.fx, st, "canary", canaryKey, "false", "vacuity canary: the callee's postcondition must be satisfiable here", ins.Pos())
	}
	if sig.Results().Len() == 1 {
		return res.Fs[0]
	}
	return res
}

// havocLoc forgets the contents of one modifies location.
func (x *Exec) havocLoc(st *State, sc *SpecCtx, loc string) {
	loc = strings.TrimSpace(loc)
	if loc == "heap" {
		st.havocAll("modifies heap")
		x.assumeGlobalInv(st)
		return
	}
	if isWorld(loc) {
		// everything except the ghost state of synchronisation objects (which only changes
		// through sync operations; an opaque callee leaves its caller's locks and channels alone)
		// and except the fields of the listed types (world except T1, T2: the callee cannot name
		// the unexported fields of this package's types; listed as an assumption)
		var keepPrefixes []string
		for _, tn := range worldExcept(loc) {
			if strings.HasPrefix(tn, "ghost ") {
				// "world except ghost g": the callee contains no operation on the objects g keeps
				// books about (g only changes through the contracts that name it)
				keepPrefixes = append(keepPrefixes, "ghost:"+strings.TrimSpace(strings.TrimPrefix(tn, "ghost ")))
				continue
			}
			keepPrefixes = append(keepPrefixes, x.typePrefix(tn))
		}
		for _, pd := range x.eng.cs.Private[x.fx.pkgPath()] {
			if x.curCallee != nil && reachesWriter(x.curCallee, pd, map[*ssa.Function]bool{}, 0) {
				// the callee is, or calls, one of the type's own writers: only the fields none
				// of the functions it can reach writes are left alone
				keepPrefixes = append(keepPrefixes, x.eng.unwrittenFields(x.curCallee, pd)...)
			} else {
				keepPrefixes = append(keepPrefixes, pd.Prefix)
			}
			// bookkeeping ghosts attached to a private type are not an opaque callee's to change
			for _, g := range x.eng.cs.Ghosts {
				if g.Arg == pd.Pkg+"."+pd.Type && !x.eng.reachesGhostSet(x.curCallee, g.Name) {
					keepPrefixes = append(keepPrefixes, "ghost:"+g.Name)
				}
			}
		}
		// bookkeeping ghosts over backing arrays only change through ghost statements
		for _, g := range x.eng.cs.Ghosts {
			if g.Arg == "array" && !x.eng.reachesGhostSet(x.curCallee, g.Name) {
				keepPrefixes = append(keepPrefixes, "ghost:"+g.Name)
			}
		}
		st.havocWorld(keepPrefixes)
		x.assumeGlobalInv(st)
		return
	}
	if strings.HasPrefix(loc, "ghost ") {
		g := strings.TrimSpace(strings.TrimPrefix(loc, "ghost "))
		if i := strings.Index(g, "("); i >= 0 && strings.HasSuffix(g, ")") {
			argE, err := ParseExpr(g[i+1 : len(g)-1])
			if err != nil {
				st.unsupported("bad ghost modifies: " + loc)
			}
			gd := x.eng.cs.Ghosts[g[:i]]
			if gd == nil {
				st.unsupported("unknown ghost " + g[:i])
			}
			av := sc.eval(argE)
			if av.K == VAddr {
				av = Value{K: VRef, T: av.A.Root}
			}
			key := "ghost:" + gd.Name
			sort, ar := ghostSort(gd)
			h := st.heapTermIn(st.heap, key, 1, sort)
			_ = ar
			nv := st.freshName("gh:" + gd.Name)
			st.declare(nv, sort)
			st.heapSet(key, fmt.Sprintf("(store %s %s %s)", h, av.T, nv))
			return
		}
		gd := x.eng.cs.Ghosts[g]
		if gd == nil {
			st.unsupported("unknown ghost " + g)
		}
		sort, _ := ghostSort(gd)
		st.heapSortOf("ghost:"+g, 1, sort)
		nv := st.freshName("H:ghost:" + g)
		st.declare(nv, "(Array Int "+sort+")")
		st.heap.m["ghost:"+g] = nv
		return
	}
	if strings.HasPrefix(loc, "dyn(") {
		v, ok := dynArg(sc, loc)
		if ok && len(v.Fs) == 1 && v.Fs[0].K == VRef {
			a := sc.derefAddr(v.Fs[0], nil)
			st.storeAt(a, st.fresh(a.Ty, "hv"))
			return
		}
		if ok && v.Ty != nil {
			if ps := fieldsOnly(loc, x.eng.implPrefixes(v.Ty)); len(ps) > 0 {
				for _, p := range ps {
					st.havocPrefix(p)
				}
				return
			}
		}
		st.havocAll("modifies " + loc)
		x.assumeGlobalInv(st)
		return
	}
	if strings.HasPrefix(loc, "global ") {
		// package variable: forget its value
		st.havocPrefix("global:" + strings.TrimSpace(strings.TrimPrefix(loc, "global ")))
		return
	}
	all := false
	if strings.HasSuffix(loc, ".*") {
		all = true
		loc = strings.TrimSuffix(loc, ".*")
	}
	whole := false
	if strings.HasSuffix(loc, "[..]") {
		whole = true
		loc = strings.TrimSuffix(loc, "[..]")
	}
	e, err := ParseExpr(loc)
	if err != nil {
		st.unsupported("bad modifies location: " + loc)
	}
	if whole || e.Op == "slice" {
		var sv Value
		lo, hi := "", ""
		if whole {
			sv = sc.eval(e)
		} else {
			sv = sc.eval(e.Args[0])
			if e.Args[1] != nil {
				lo = sc.eval(e.Args[1]).T
			}
			if e.Args[2] != nil {
				hi = sc.eval(e.Args[2]).T
			}
		}
		if sv.K != VSlice {
			st.unsupported("modifies range of non-slice: " + loc)
		}
		if lo == "" {
			lo = "0"
		}
		if hi == "" {
			hi = sv.Len
		}
		x.havocElems(st, sv, lo, hi)
		return
	}
	v := sc.evalAddr(e)
	if all {
		s, ok := v.Ty.Underlying().(*types.Struct)
		if !ok {
			st.unsupported("modifies x.* of non-struct")
		}
		_ = s
		st.storeAt(v, st.fresh(v.Ty, "hv"))
		return
	}
	st.storeAt(v, st.fresh(v.Ty, "hv"))
}

// havocElems forgets elements [lo,hi) of slice sv (relative indices), keeping all others.
func (x *Exec) havocElems(st *State, sv Value, lo, hi string) {
	et := sv.Ty.Underlying().(*types.Slice).Elem()
	ek := kindOf(et)
	if ek >= VSlice {
		// aggregate elements: forget every leaf heap of the element type (coarse but sound)
		if ek == VStruct || ek == VSlice {
			st.havocPrefix("elem:" + typeKey(et))
			return
		}
		st.unsupported("havoc of aggregate slice elements")
	}
	key := "elem:" + typeKey(et)
	h := st.heapTermIn(st.heap, key, 2, scalarSort(ek))
	na := st.freshName("arr")
	st.declare(na, "(Array Int "+scalarSort(ek)+")")
	st.assume(fmt.Sprintf("(forall ((i Int)) (! (=> (or (< i (+ %s %s)) (>= i (+ %s %s))) (= (select %s i) (select (select %s %s) i))) :pattern ((select %s i))))", sv.Off, lo, sv.Off, hi, na, h, sv.Arr, na))
	if ek == VInt {
		lo2, hi2, ok := intRange(et)
		if ok {
			st.assume(fmt.Sprintf("(forall ((i Int)) (! (and (<= %s (select %s i)) (<= (select %s i) %s)) :pattern ((select %s i))))", smtInt(lo2), na, na, smtInt(hi2), na))
		}
	}
	st.heapSet(key, fmt.Sprintf("(store %s %s %s)", h, sv.Arr, na))
}

func ghostSort(g *GhostDef) (string, int) {
	switch g.Res {
	case "reals":
		return "(Array Int Real)", 1
	case "strs":
		return "(Array Int Str)", 1
	case "int":
		return "Int", 1
	case "bool":
		return "Bool", 1
	case "str":
		return "Str", 1
	case "real":
		return "Real", 1
	case "bytes", "ints":
		return "(Array Int Int)", 1
	}
	return "Int", 1
}

// closurePre checks the closure's requires over its captured cells at creation time.
func (x *Exec) closurePre(st *State, ins *ssa.MakeClosure, f *ssa.Function, binds []Value) {
	x.closureInfer(st, ins, f, binds)
	k := x.eng.cs.Funcs[funcFullName(f)]
	if k == nil || len(k.Requires) == 0 {
		return
	}
	env := map[string]Value{}
	for i, fv := range f.FreeVars {
		env[fv.Name()] = binds[i]
	}
	hv := st.heap
	if spawnedOnly(ins) {
		// the closure only ever runs as a new goroutine, which holds no lock when it starts:
		// the lock state is per goroutine
		hv = st.heap.clone()
		hv.m["ghost:mu_held"] = "((as const (Array Int Bool)) false)"
	}
	sc := x.specCtx(st, hv, hv, env)
	sc.lenient = true
	n := 0
	for _, r := range k.Requires {
		for _, cj := range x.eng.cs.goals(r.E) {
			n++
			if !sc.onlyUses(cj, env) {
				continue // mentions call-time parameters: checked at the call site instead
			}
			g := sc.evalBool(cj)
			x.eng.oblige(x.fx, st, "pre", x.fx.siteKey(ins, fmt.Sprintf("closure:%s#%d", f.Name(), n)), g, "closure precondition of "+f.Name()+": "+cj.String(), ins.Pos())
		}
	}
}

func (x *Exec) runDefers(st *State, fn *ssa.Function, ins *ssa.RunDefers, top bool) []*State {
	states := []*State{st}
	for len(st.defers) > 0 {
		d := st.defers[len(st.defers)-1]
		var next []*State
		for _, s := range states {
			s.defers = s.defers[:len(s.defers)-1]
			// execute the deferred call with the recorded arguments
			cc := d.call.Common()
			saved := map[ssa.Value]Value{}
			for i, a := range cc.Args {
				if old, ok := s.env[a]; ok {
					saved[a] = old
				}
				s.env[a] = d.args[i+0]
			}
			res := x.call(s, fn, dummyValue{d.call}, cc, top)
			for _, r := range res {
				for a, v := range saved {
					r.env[a] = v
				}
			}
			next = append(next, res...)
		}
		states = next
		if len(states) == 0 {
			return nil
		}
		st = states[0]
	}
	return states
}

// dummyValue lets a Defer instruction be used where a call result value is expected.
type dummyValue struct{ *ssa.Defer }

func (d dummyValue) Name() string                  { return "defer" }
func (d dummyValue) Type() types.Type              { return types.NewTuple() }
func (d dummyValue) Referrers() *[]ssa.Instruction { return nil }

// calleeFrame checks that a location a callee may modify lies inside the caller's own frame.
func (x *Exec) calleeFrame(st *State, ins ssa.Instruction, sc *SpecCtx, loc string) {
	if !st.hasFrame {
		return
	}
	loc = strings.TrimSpace(loc)
	switch {
	case loc == "heap" || isWorld(loc):
		// "world except A, B" of the callee fits into "world except A" of the caller
		var ex []string
		for _, p := range worldExcept(loc) {
			ex = append(ex, x.typePrefix(p))
		}
		x.frameCheck(st, ins, "*world:"+strings.Join(ex, ","), "", "", "the whole heap (callee modifies heap)")
	case strings.HasPrefix(loc, "ghost "):
		g := strings.TrimSpace(strings.TrimPrefix(loc, "ghost "))
		root := ""
		if i := strings.Index(g, "("); i >= 0 && strings.HasSuffix(g, ")") {
			if e, err := ParseExpr(g[i+1 : len(g)-1]); err == nil {
				v := sc.eval(e)
				if v.K == VAddr {
					v = Value{K: VRef, T: v.A.Root}
				}
				root = v.T
			}
			g = g[:i]
		}
		x.frameCheck(st, ins, "ghost:"+g, root, "", "ghost "+g)
	case strings.HasPrefix(loc, "dyn("):
		v, ok := dynArg(sc, loc)
		if !ok {
			return
		}
		if len(v.Fs) == 1 && v.Fs[0].K == VRef {
			a := sc.derefAddr(v.Fs[0], nil)
			x.frameCheck(st, ins, a.Key, a.Root, "", loc)
		} else {
			x.frameCheck(st, ins, "dyn:", v.T, "", loc)
		}
	case strings.HasPrefix(loc, "global "):
		x.frameCheck(st, ins, "global:"+strings.TrimSpace(strings.TrimPrefix(loc, "global ")), "0", "", loc)
	default:
		whole := strings.HasSuffix(loc, "[..]")
		l2 := strings.TrimSuffix(strings.TrimSuffix(loc, ".*"), "[..]")
		e, err := ParseExpr(l2)
		if err != nil {
			return
		}
		if whole || e.Op == "slice" {
			var sv Value
			if whole {
				sv = sc.eval(e)
			} else {
				sv = sc.eval(e.Args[0])
			}
			if sv.K == VSlice {
				key, _ := elemKeyOf(sv.Ty)
				x.frameCheck(st, ins, key, sv.Arr, "", "elements "+loc)
			}
			return
		}
		a := sc.evalAddr(e)
		x.frameCheck(st, ins, a.Key, a.Root, "", loc)
	}
}

// implPrefixes lists the heap key prefixes an object behind interface type it may own: the
// struct types of the module (and of loaded libraries) whose pointer or value implements the
// interface, plus the element heaps of their slice-typed fields.
func (e *Engine) implPrefixes(it types.Type) []string {
	iface, ok := it.Underlying().(*types.Interface)
	if !ok {
		return nil
	}
	key := fullTypeName(it)
	e.mu.Lock()
	if p, ok := e.implCache[key]; ok {
		e.mu.Unlock()
		return p
	}
	e.mu.Unlock()
	seen := map[string]bool{}
	var out []string
	add := func(k string) {
		if !seen[k] {
			seen[k] = true
			out = append(out, k)
		}
	}
	for _, pkg := range e.prog.AllPackages() {
		for _, m := range pkg.Members {
			tn, ok := m.(*ssa.Type)
			if !ok {
				continue
			}
			T := tn.Type()
			if _, isIface := T.Underlying().(*types.Interface); isIface {
				continue
			}
			if !(types.Implements(T, iface) || types.Implements(types.NewPointer(T), iface)) {
				continue
			}
			add(typeKey(T))
			if st, ok := T.Underlying().(*types.Struct); ok {
				for i := 0; i < st.NumFields(); i++ {
					if sl, ok := st.Field(i).Type().Underlying().(*types.Slice); ok {
						add("elem:" + typeKey(sl.Elem()))
					}
				}
			}
		}
	}
	e.mu.Lock()
	e.implCache[key] = out
	e.mu.Unlock()
	return out
}

// dynPrefixesStatic resolves `dyn(e).*` statically through the declared interface type of e.
func (x *Exec) dynPrefixesStatic(k *FuncContract, t callTarget, c *ssa.CallCommon, loc string) []string {
	i, j := strings.Index(loc, "("), strings.LastIndex(loc, ")")
	if i < 0 || j < i {
		return nil
	}
	e, err := ParseExpr(strings.TrimSpace(loc[i+1 : j]))
	if err != nil {
		return nil
	}
	names, tys := x.contractParams(k, t, c)
	var walk func(e *Expr) types.Type
	walk = func(e *Expr) types.Type {
		switch e.Op {
		case "ident":
			for n, nm := range names {
				if nm == e.Name {
					return tys[n]
				}
			}
		case "sel":
			ty := walk(e.Args[0])
			if ty == nil {
				return nil
			}
			if pt, ok := ty.Underlying().(*types.Pointer); ok {
				ty = pt.Elem()
			}
			if st, ok := ty.Underlying().(*types.Struct); ok {
				for f := 0; f < st.NumFields(); f++ {
					if st.Field(f).Name() == e.Name {
						return st.Field(f).Type()
					}
				}
			}
		case "un:*":
			ty := walk(e.Args[0])
			if ty != nil {
				if pt, ok := ty.Underlying().(*types.Pointer); ok {
					return pt.Elem()
				}
			}
		}
		return nil
	}
	ty := walk(e)
	if ty == nil {
		return nil
	}
	return fieldsOnly(loc, x.eng.implPrefixes(ty))
}

// fieldsOnly: `dyn(x).fields` covers the struct fields of the possible dynamic types but not
// the elements of slices they own (`dyn(x).*` covers both).
func fieldsOnly(loc string, ps []string) []string {
	if !strings.HasSuffix(strings.TrimSpace(loc), ".fields") {
		return ps
	}
	var out []string
	for _, p := range ps {
		if !strings.HasPrefix(p, "elem:") {
			out = append(out, p)
		}
	}
	return out
}

// applyGhostSets performs the ghost assignments of contract k in the context sc (whose `old`
// heap is the state before the call / at function entry).
func (x *Exec) applyGhostSets(st *State, k *FuncContract, sc *SpecCtx) {
	if len(k.GhostSets) == 0 {
		return
	}
	type upd struct {
		key, idx, val, sort string
	}
	var ups []upd
	for _, gs := range k.GhostSets {
		if gs.At != "" || gs.Ghost == "" {
			continue // anchored ghost statements run inside the body
		}
		gd := x.eng.cs.Ghosts[gs.Ghost]
		if gd == nil {
			st.unsupported("ghostset of unknown ghost " + gs.Ghost)
		}
		a := sc.eval(gs.Arg)
		if a.K == VAddr {
			a = st.addrToRef(a)
		}
		v := sc.eval(gs.Val)
		sort, _ := ghostSort(gd)
		t := v.T
		if sort == "Real" && v.K == VInt {
			t = "(to_real " + t + ")"
		}
		ups = append(ups, upd{"ghost:" + gd.Name, a.T, t, sort})
	}
	for _, u := range ups {
		h := st.heapTermIn(st.heap, u.key, 1, u.sort)
		st.heapSet(u.key, fmt.Sprintf("(store %s %s %s)", h, u.idx, u.val))
	}
}

var syncGhosts = []string{"ghost:mu_held", "ghost:chan_cap", "ghost:chan_sends", "ghost:chan_recvs", "ghost:chan_closed", "ghost:wg_added", "ghost:wg_done", "ghost:wg_waited", "ghost:go_started"}

// spawnedOnly: every use of the closure value is a go statement.
func spawnedOnly(mc *ssa.MakeClosure) bool {
	refs := mc.Referrers()
	if refs == nil || len(*refs) == 0 {
		return false
	}
	for _, r := range *refs {
		if _, ok := r.(*ssa.DebugRef); ok {
			continue
		}
		if g, ok := r.(*ssa.Go); !ok || g.Call.Value != mc {
			return false
		}
	}
	return true
}

func isWorld(loc string) bool {
	return loc == "world" || strings.HasPrefix(loc, "world except ")
}

func worldExcept(loc string) []string {
	if !strings.HasPrefix(loc, "world except ") {
		return nil
	}
	var out []string
	for _, p := range strings.Split(strings.TrimPrefix(loc, "world except "), ",") {
		if p = strings.TrimSpace(p); p != "" {
			out = append(out, p)
		}
	}
	return out
}

// typePrefix resolves a type name (relative to the package of the function under verification,
// or fully qualified) to its heap key prefix.
func (x *Exec) typePrefix(name string) string {
	fn := x.fx.fn
	var pkg *types.Package
	if fn.Pkg != nil {
		pkg = fn.Pkg.Pkg
	} else if o := fn.Origin(); o != nil && o.Pkg != nil {
		pkg = o.Pkg.Pkg
	} else if p := fn.Parent(); p != nil && p.Pkg != nil {
		pkg = p.Pkg.Pkg
	}
	if pkg != nil && !strings.Contains(name, ".") {
		if o := pkg.Scope().Lookup(name); o != nil {
			return typeKey(o.Type())
		}
	}
	return strings.TrimPrefix(name, "rare/")
}

// havocWorld forgets the whole heap except the synchronisation ghosts and every key under one
// of the kept prefixes.
func (st *State) havocWorld(keep []string) {
	old := st.heap
	for _, k := range syncGhosts {
		sort := "Int"
		if k == "ghost:mu_held" || k == "ghost:chan_closed" || k == "ghost:wg_waited" {
			sort = "Bool"
		}
		st.heapTermIn(old, k, 1, sort)
		old.m[k] = st.heapTermIn(old, k, 1, sort)
	}
	st.havocAll("modifies world")
	nh := st.heap
	for _, k := range syncGhosts {
		nh.m[k] = old.m[k]
	}
	if len(keep) == 0 {
		return
	}
	nh.pre = map[string]string{}
	under := func(k, p string) bool {
		return k == p || strings.HasPrefix(k, p+".") || strings.HasPrefix(k, p+"#")
	}
	for _, p := range keep {
		// untouched keys under p keep the generation they had before the call
		gen := old.base
		best := -1
		for q, g := range old.pre {
			if under(p, q) && len(q) > best {
				gen, best = g, len(q)
			}
		}
		nh.pre[p] = gen
		for q, g := range old.pre {
			if under(q, p) && q != p {
				nh.pre[q] = g
			}
		}
		for k, v := range old.m {
			if under(k, p) {
				nh.m[k] = v
			}
		}
	}
}

func (fx *FuncExec) pkgPath() string {
	fn := fx.fn
	for fn != nil {
		if fn.Pkg != nil {
			return fn.Pkg.Pkg.Path()
		}
		if o := fn.Origin(); o != nil && o.Pkg != nil {
			return o.Pkg.Pkg.Path()
		}
		fn = fn.Parent()
	}
	return ""
}

// checkPrivate emits, for every private declaration of the package, the obligation that the
// functions that write a field of the type (a store through a field address, or a field address
// handed to a call) are exactly within the declared writer list.
func (e *Engine) checkPrivate(pkgPath string) {
	for _, pd := range e.cs.Private[pkgPath] {
		fx := &FuncExec{eng: e, name: "private:" + pkgPath + "." + pd.Type}
		st := &State{fx: fx, declSet: map[string]bool{}, pcSet: map[string]bool{}}
		e.funcsDone = append(e.funcsDone, fx.name)
		allowed := map[string]bool{}
		for _, w := range pd.Writers {
			allowed[w] = true
		}
		writers := map[string]token.Pos{}
		for fn := range ssautil.AllFunctions(e.prog) {
			for _, b := range fn.Blocks {
				for _, ins := range b.Instrs {
					fa, ok := ins.(*ssa.FieldAddr)
					if !ok {
						continue
					}
					pt, ok := fa.X.Type().Underlying().(*types.Pointer)
					if !ok || typeKey(pt.Elem()) != pd.Prefix {
						continue
					}
					if refs := fa.Referrers(); refs != nil {
						for _, r := range *refs {
							switch u := r.(type) {
							case *ssa.Store:
								if u.Addr == fa {
									writers[shortFuncName(fn)] = u.Pos()
								}
							case *ssa.UnOp, *ssa.DebugRef, *ssa.FieldAddr, *ssa.IndexAddr:
							case *ssa.Call:
								if sf := u.Call.StaticCallee(); sf != nil && (strings.HasPrefix(funcFullName(sf), "sync/atomic.Load") || strings.HasPrefix(funcFullName(sf), "sync.(*")) {
									continue
								}
								writers[shortFuncName(fn)] = r.Pos()
							case *ssa.Defer:
								if sf := u.Call.StaticCallee(); sf != nil && strings.HasPrefix(funcFullName(sf), "sync.(*") {
									continue
								}
								writers[shortFuncName(fn)] = r.Pos()
							default:
								writers[shortFuncName(fn)] = r.Pos()
							}
						}
					}
				}
			}
		}
		var names []string
		for n := range writers {
			names = append(names, n)
		}
		sort.Strings(names)
		for _, n := range names {
			g := "false"
			if allowed[n] {
				g = "true"
			}
			e.oblige(fx, st, "private", "writer["+n+"]", g, fmt.Sprintf("%s writes a field of %s but is not in its declared writer list %v", n, pd.Type, pd.Writers), writers[n])
		}
		e.assumptions = append(e.assumptions, fmt.Sprintf("private %s.%s: calls with frame `world` in this package are assumed not to reach the writers %v of the type's fields (checked: no other function writes them)", pkgPath, pd.Type, names))
	}
}

func shortFuncName(fn *ssa.Function) string {
	n := funcFullName(fn)
	if i := strings.LastIndex(n, "/"); i >= 0 {
		n = n[i+1:]
	}
	if i := strings.Index(n, "."); i >= 0 {
		n = n[i+1:]
	}
	return n
}

// reachesWriter: fn is one of pd's declared writers or reaches one through static calls,
// deferred calls, go statements or closures it creates.
func reachesWriter(fn *ssa.Function, pd *PrivateDecl, seen map[*ssa.Function]bool, depth int) bool {
	if fn == nil || seen[fn] || depth > 8 {
		return false
	}
	seen[fn] = true
	n := shortFuncName(fn)
	for _, w := range pd.Writers {
		if w == n {
			return true
		}
	}
	for _, b := range fn.Blocks {
		for _, ins := range b.Instrs {
			var callee *ssa.Function
			switch v := ins.(type) {
			case ssa.CallInstruction:
				callee = v.Common().StaticCallee()
			case *ssa.MakeClosure:
				callee, _ = v.Fn.(*ssa.Function)
			}
			if callee != nil && reachesWriter(callee, pd, seen, depth+1) {
				return true
			}
		}
	}
	return false
}

// reachable: the functions fn can reach through static calls, defers, go statements and the
// closures it creates (fn included).
func reachable(fn *ssa.Function, seen map[*ssa.Function]bool) {
	if fn == nil || seen[fn] {
		return
	}
	seen[fn] = true
	for _, b := range fn.Blocks {
		for _, ins := range b.Instrs {
			switch v := ins.(type) {
			case ssa.CallInstruction:
				reachable(v.Common().StaticCallee(), seen)
			case *ssa.MakeClosure:
				if f, ok := v.Fn.(*ssa.Function); ok {
					reachable(f, seen)
				}
			}
		}
	}
}

// fieldWritersOf lists, per field heap key of the struct type with key prefix, the functions
// that write the field (store through its address, or hand its address to a call that is not
// a sync/atomic load or a mutex operation).
func (e *Engine) fieldWritersOf(prefix string) map[string]map[*ssa.Function]bool {
	e.mu.Lock()
	if e.fieldWriters == nil {
		e.fieldWriters = map[string]map[string]map[*ssa.Function]bool{}
	}
	if m, ok := e.fieldWriters[prefix]; ok {
		e.mu.Unlock()
		return m
	}
	e.mu.Unlock()
	m := map[string]map[*ssa.Function]bool{}
	for fn := range ssautil.AllFunctions(e.prog) {
		for _, b := range fn.Blocks {
			for _, ins := range b.Instrs {
				fa, ok := ins.(*ssa.FieldAddr)
				if !ok {
					continue
				}
				pt, ok := fa.X.Type().Underlying().(*types.Pointer)
				if !ok || typeKey(pt.Elem()) != prefix {
					continue
				}
				stt, ok := pt.Elem().Underlying().(*types.Struct)
				if !ok {
					continue
				}
				key := prefix + "." + stt.Field(fa.Field).Name()
				if fieldAddrWritten(fa, 0) {
					if m[key] == nil {
						m[key] = map[*ssa.Function]bool{}
					}
					m[key][fn] = true
				}
			}
		}
	}
	e.mu.Lock()
	e.fieldWriters[prefix] = m
	e.mu.Unlock()
	return m
}

func fieldAddrWritten(v ssa.Value, depth int) bool {
	refs := v.Referrers()
	if refs == nil || depth > 4 {
		return refs != nil
	}
	for _, r := range *refs {
		switch u := r.(type) {
		case *ssa.Store:
			if u.Addr == v {
				return true
			}
			return true // the address itself is stored somewhere: may be written through later
		case *ssa.UnOp, *ssa.DebugRef:
		case *ssa.FieldAddr:
			if fieldAddrWritten(u, depth+1) {
				return true
			}
		case *ssa.IndexAddr:
			if fieldAddrWritten(u, depth+1) {
				return true
			}
		case ssa.CallInstruction:
			if sf := u.Common().StaticCallee(); sf != nil && (strings.HasPrefix(funcFullName(sf), "sync/atomic.Load") || strings.HasPrefix(funcFullName(sf), "sync.(*")) {
				continue
			}
			return true
		default:
			return true
		}
	}
	return false
}

// unwrittenFields: key prefixes of the fields of pd's type that no function reachable from
// callee writes.
func (e *Engine) unwrittenFields(callee *ssa.Function, pd *PrivateDecl) []string {
	reach := map[*ssa.Function]bool{}
	reachable(callee, reach)
	fw := e.fieldWritersOf(pd.Prefix)
	var out []string
	pkg := e.prog.ImportedPackage(pd.Pkg)
	if pkg == nil {
		return nil
	}
	tm, ok := pkg.Members[pd.Type].(*ssa.Type)
	if !ok {
		return nil
	}
	stt, ok := tm.Type().Underlying().(*types.Struct)
	if !ok {
		return nil
	}
	for i := 0; i < stt.NumFields(); i++ {
		key := pd.Prefix + "." + stt.Field(i).Name()
		written := false
		for f := range fw[key] {
			if reach[f] {
				written = true
			}
		}
		if !written {
			out = append(out, key)
		}
	}
	return out
}

// reachesGhostSet: some function reachable from callee has a contract with a ghost statement
// for ghost g (the direct callee's own statements are applied or havocked by the caller).
func (e *Engine) reachesGhostSet(callee *ssa.Function, g string) bool {
	if callee == nil {
		return false
	}
	reach := map[*ssa.Function]bool{}
	reachable(callee, reach)
	for f := range reach {
		if f == callee {
			continue
		}
		if k := e.cs.Funcs[funcFullName(f)]; k != nil {
			for _, gs := range k.GhostSets {
				if gs.Ghost == g {
					return true
				}
			}
		}
	}
	return false
}

// ---- inferred closure preconditions -------------------------------------------------------
//
// A closure reads its captured variables through cells. For a cell that is never written after
// the closure is created (constCell) any fact about its content that holds when the closure is
// created holds at every call. Candidate facts (slice long enough for the constant indices the
// closure uses, func/pointer/map/interface value non-nil, integer positive / non-negative) are
// emitted as obligations of class "infer" at the MakeClosure site of the enclosing function;
// the ones that discharge are assumed at the closure's entry, the others are simply not
// assumed (the closure then has to be safe without them). Nothing is ever assumed unproved.

type autoCand struct {
	Text string
	E    *Expr
	Obl  string // name of the obligation at the creation site ("" until the parent was executed)
}

func maxConstIndex(fv *ssa.FreeVar) int {
	max := -1
	refs := fv.Referrers()
	if refs == nil {
		return max
	}
	for _, r := range *refs {
		// captured again by a nested closure: its uses count too
		if mc, ok := r.(*ssa.MakeClosure); ok {
			if inner, ok := mc.Fn.(*ssa.Function); ok {
				for i, b := range mc.Bindings {
					if b == ssa.Value(fv) && i < len(inner.FreeVars) {
						if m := maxConstIndex(inner.FreeVars[i]); m > max {
							max = m
						}
					}
				}
			}
			continue
		}
		ld, ok := r.(*ssa.UnOp)
		if !ok || ld.Op != token.MUL || ld.Referrers() == nil {
			continue
		}
		for _, u := range *ld.Referrers() {
			var idx ssa.Value
			switch t := u.(type) {
			case *ssa.IndexAddr:
				if t.X == ssa.Value(ld) {
					idx = t.Index
				}
			case *ssa.Index:
				if t.X == ssa.Value(ld) {
					idx = t.Index
				}
			}
			if idx == nil {
				continue
			}
			if c, ok := constInt(idx); ok && c >= 0 && c < 16 && int(c) > max {
				max = int(c)
			}
		}
	}
	return max
}

func (e *Engine) autoCands(f *ssa.Function) []*autoCand {
	name := funcFullName(f)
	e.mu.Lock()
	defer e.mu.Unlock()
	if e.autoPre == nil {
		e.autoPre = map[string][]*autoCand{}
	}
	if cs, ok := e.autoPre[name]; ok {
		return cs
	}
	var out []*autoCand
	add := func(text string) {
		ex, err := ParseExpr(text)
		if err != nil {
			return
		}
		out = append(out, &autoCand{Text: text, E: ex})
	}
	seen := map[string]bool{}
	for _, fv := range f.FreeVars {
		if !constCell(fv) || seen[fv.Name()] {
			continue
		}
		seen[fv.Name()] = true
		pt, ok := fv.Type().(*types.Pointer)
		if !ok || !token.IsIdentifier(fv.Name()) {
			continue
		}
		n := fv.Name()
		switch u := pt.Elem().Underlying().(type) {
		case *types.Slice:
			for k := 1; k <= maxConstIndex(fv)+1; k++ {
				add(fmt.Sprintf("len(*%s) >= %d", n, k))
			}
		case *types.Signature, *types.Pointer, *types.Map, *types.Interface:
			add(fmt.Sprintf("*%s != nil", n))
		case *types.Basic:
			if u.Info()&types.IsString != 0 {
				add(fmt.Sprintf("len(*%s) >= 1", n))
			}
			if u.Info()&types.IsInteger != 0 {
				add(fmt.Sprintf("*%s > 0", n))
				add(fmt.Sprintf("*%s >= 0", n))
			}
		}
	}
	// two captured slices indexed by the same counter: equal lengths
	var slices []string
	for _, fv := range f.FreeVars {
		if pt, ok := fv.Type().(*types.Pointer); ok && constCell(fv) && token.IsIdentifier(fv.Name()) {
			if _, ok := pt.Elem().Underlying().(*types.Slice); ok {
				slices = append(slices, fv.Name())
			}
		}
	}
	for i := 0; i < len(slices) && len(slices) <= 4; i++ {
		for j := i + 1; j < len(slices); j++ {
			add(fmt.Sprintf("len(*%s) == len(*%s)", slices[i], slices[j]))
		}
	}
	e.autoPre[name] = out
	return out
}

// closureInfer emits the candidate facts of closure f as "infer" obligations at its creation site.
func (x *Exec) closureInfer(st *State, ins *ssa.MakeClosure, f *ssa.Function, binds []Value) {
	if !x.eng.inferClosures || x.fx.trial || ins.Parent() != x.fx.fn || f.Parent() != x.fx.fn {
		return // only in the enclosing function's own verification (not in inlined copies)
	}
	cands := x.eng.autoCands(f)
	if len(cands) == 0 {
		return
	}
	env := map[string]Value{}
	for i, fv := range f.FreeVars {
		env[fv.Name()] = binds[i]
	}
	for _, c := range cands {
		func() {
			defer func() {
				if r := recover(); r != nil {
					if _, ok := r.(unsupportedErr); !ok {
						panic(r)
					}
				}
			}()
			sc := x.specCtx(st, st.heap, st.heap, env)
			sc.lenient = true
			g := sc.evalBool(c.E)
			key := "closure:" + f.Name() + ":" + strings.NewReplacer(">=", "ge", "==", "eq", "!=", "ne", ">", "gt").Replace(c.Text)
			x.eng.oblige(x.fx, st, "infer", key, g, "candidate closure precondition of "+f.Name()+" (assumed by the closure only if proved here): "+c.Text, ins.Pos())
			c.Obl = x.fx.name + "/infer/" + key
		}()
	}
}

// assumeInferred assumes, at the entry of closure fx.fn, the candidate facts proved at its creation site.
func (x *Exec) assumeInferred(st *State) {
	if !x.eng.inferClosures || x.fx.fn.Parent() == nil {
		return
	}
	for _, c := range x.eng.autoCands(x.fx.fn) {
		if c.Obl == "" {
			continue
		}
		x.eng.mu.Lock()
		ob := x.eng.obls[c.Obl]
		x.eng.mu.Unlock()
		if ob == nil || ob.status() != "unsat" {
			continue
		}
		func() {
			defer func() {
				if r := recover(); r != nil {
					if _, ok := r.(unsupportedErr); !ok {
						panic(r)
					}
				}
			}()
			sc := x.specCtx(st, st.old, st.old, x.paramNames(st, nil))
			st.assume(sc.evalHyp(c.E))
			x.eng.mu.Lock()
			if x.eng.inferredUsed == nil {
				x.eng.inferredUsed = map[string]bool{}
			}
			x.eng.inferredUsed[x.fx.name+": "+c.Text] = true
			x.eng.mu.Unlock()
		}()
	}
}
