package main

import (
	"bytes"
	"context"
	"fmt"
	"hash/fnv"
	"os"
	"os/exec"
	"path/filepath"
	"regexp"
	"strings"
	"sync"
	"time"
)

const preludeCore = `
(declare-sort Str 0)
(declare-fun slen (Str) Int)
(declare-fun sat (Str Int) Int)
(declare-fun ssub (Str Int Int) Str)
(declare-fun scat (Str Str) Str)
(declare-const str_empty Str)
(declare-fun str_lt (Str Str) Bool)
(declare-fun dyn_type (Int) Int)
(declare-fun iface_int (Int) Int)
(declare-fun iface_bool (Int) Bool)
(declare-fun iface_real (Int) Real)
(declare-fun iface_str (Int) Str)
(declare-fun int_shl (Int Int) Int)
(declare-fun int_shr (Int Int) Int)
(declare-fun int_and (Int Int) Int)
(declare-fun int_or (Int Int) Int)
(declare-fun int_xor (Int Int) Int)
(declare-fun int_andnot (Int Int) Int)
(declare-fun rune_count (Str) Int)
(declare-fun runes_of (Str) (Array Int Int))
(declare-fun str_of_runes ((Array Int Int) Int Int) Str)
(declare-fun str_of_rune (Int) Str)
(declare-fun str_of_byte (Int) Str)
(declare-fun bytes_str ((Array Int Int) Int Int) Str)
(declare-fun utf8_rune (Str Int) Int)
(declare-fun utf8_width (Str Int) Int)
(declare-fun f2i_oor (Real Int) Int)
(declare-fun ccell_Int (Int) Int)
(declare-fun ccell_arr (Int) Int)
(declare-fun ccell_off (Int) Int)
(declare-fun ccell_len (Int) Int)
(declare-fun ccell_cap (Int) Int)
(declare-fun ccell_Bool (Int) Bool)
(declare-fun ccell_Real (Int) Real)
(declare-fun ccell_Str (Int) Str)
(declare-fun tquo (Int Int) Int)
(declare-fun trem (Int Int) Int)
(define-fun fdiv ((fdiv!a Int) (fdiv!b Int)) Int (ite (and (< fdiv!a 0) (not (= (trem fdiv!a fdiv!b) 0))) (- (tquo fdiv!a fdiv!b) 1) (tquo fdiv!a fdiv!b)))
`

// string axioms, included when the VC mentions the symbol in the first column
var strAxioms = []struct{ trigger, text string }{
	{"slen", `(assert (forall ((s Str)) (! (and (>= (slen s) 0) (<= (slen s) 140737488355328)) :pattern ((slen s)))))`},
	{"slen", `(assert (= (slen str_empty) 0))`},
	{"slen", `(assert (forall ((s Str)) (! (=> (= (slen s) 0) (= s str_empty)) :pattern ((slen s)))))`},
	{"sat", `(assert (forall ((s Str) (i Int)) (! (and (<= 0 (sat s i)) (<= (sat s i) 255)) :pattern ((sat s i)))))`},
	{"ssub", `(assert (forall ((s Str) (a Int) (b Int)) (! (=> (and (<= 0 a) (<= a b) (<= b (slen s))) (= (slen (ssub s a b)) (- b a))) :pattern ((ssub s a b)))))`},
	{"ssub", `(assert (forall ((s Str) (a Int) (b Int) (i Int)) (! (=> (and (<= 0 a) (<= a b) (<= b (slen s)) (<= 0 i) (< i (- b a))) (= (sat (ssub s a b) i) (sat s (+ a i)))) :pattern ((sat (ssub s a b) i)))))`},
	{"ssub", `(assert (forall ((s Str) (a Int) (b Int) (c Int) (d Int)) (! (=> (and (<= 0 a) (<= a b) (<= b (slen s)) (<= 0 c) (<= c d) (<= d (- b a))) (= (ssub (ssub s a b) c d) (ssub s (+ a c) (+ a d)))) :pattern ((ssub (ssub s a b) c d)))))`},
	{"ssub", `(assert (forall ((s Str)) (! (= (ssub s 0 (slen s)) s) :pattern ((ssub s 0 (slen s))))))`},
	{"scat", `(assert (forall ((a Str) (b Str)) (! (= (slen (scat a b)) (+ (slen a) (slen b))) :pattern ((scat a b)))))`},
	{"scat", `(assert (forall ((a Str) (b Str) (i Int)) (! (= (sat (scat a b) i) (ite (< i (slen a)) (sat a i) (sat b (- i (slen a))))) :pattern ((sat (scat a b) i)))))`},
	{"scat", `(assert (forall ((a Str)) (! (and (= (scat a str_empty) a) (= (scat str_empty a) a)) :pattern ((scat a str_empty)) :pattern ((scat str_empty a)))))`},
	{"scat", `(assert (forall ((a Str) (b Str) (c Str)) (! (= (scat (scat a b) c) (scat a (scat b c))) :pattern ((scat (scat a b) c)))))`},
	{"scat", `(assert (forall ((s Str) (a Int) (b Int) (c Int)) (! (=> (and (<= 0 a) (<= a b) (<= b c) (<= c (slen s))) (= (scat (ssub s a b) (ssub s b c)) (ssub s a c))) :pattern ((scat (ssub s a b) (ssub s b c))))))`},
	{"str_lt", `(assert (forall ((a Str)) (! (not (str_lt a a)) :pattern ((str_lt a a)))))`},
	{"str_lt", `(assert (forall ((a Str) (b Str)) (! (=> (str_lt a b) (not (str_lt b a))) :pattern ((str_lt a b)))))`},
	{"str_lt", `(assert (forall ((a Str) (b Str)) (! (or (str_lt a b) (str_lt b a) (= a b)) :pattern ((str_lt a b)))))`},
	{"str_lt", `(assert (forall ((a Str) (b Str) (c Str)) (! (=> (and (str_lt a b) (str_lt b c)) (str_lt a c)) :pattern ((str_lt a b) (str_lt b c)))))`},
	{"str_of_rune", `(assert (forall ((r Int)) (! (and (>= (slen (str_of_rune r)) 1) (<= (slen (str_of_rune r)) 4) (=> (and (<= 0 r) (< r 128)) (and (= (slen (str_of_rune r)) 1) (= (sat (str_of_rune r) 0) r)))) :pattern ((str_of_rune r)))))`},
	{"str_of_byte", `(assert (forall ((r Int)) (! (and (= (slen (str_of_byte r)) 1) (=> (and (<= 0 r) (<= r 255)) (= (sat (str_of_byte r) 0) r))) :pattern ((str_of_byte r)))))`},
	{"bytes_str", `(assert (forall ((a (Array Int Int)) (o Int) (n Int)) (! (=> (>= n 0) (= (slen (bytes_str a o n)) n)) :pattern ((bytes_str a o n)))))`},
	{"bytes_str", `(assert (forall ((a (Array Int Int)) (o Int) (n Int) (i Int)) (! (=> (and (<= 0 i) (< i n) (<= 0 (select a (+ o i))) (<= (select a (+ o i)) 255)) (= (sat (bytes_str a o n) i) (select a (+ o i)))) :pattern ((sat (bytes_str a o n) i)))))`},
	{"rune_count", `(assert (forall ((s Str)) (! (and (<= 0 (rune_count s)) (<= (rune_count s) (slen s))) :pattern ((rune_count s)))))`},
}

type SolverCfg struct {
	Name string
	Cmd  []string // file appended
}

func solverList(timeoutMs int) []SolverCfg {
	sec := timeoutMs / 1000
	if sec < 1 {
		sec = 1
	}
	return []SolverCfg{
		{"z3-new", []string{"z3-new", fmt.Sprintf("-T:%d", sec), "-smt2"}},
		{"cvc5", []string{"cvc5", "--lang=smt2", fmt.Sprintf("--tlimit=%d", timeoutMs), "--produce-models"}},
		{"z3", []string{"z3", fmt.Sprintf("-T:%d", sec), "-smt2"}},
	}
}

// rawForm is one top-level s-expression of a raw SMT block (prelude axioms, contract smt blocks).
type rawForm struct {
	text    string
	declare string     // symbol declared/defined by this form ("" for assert)
	uses    []string   // declared symbols mentioned
	pats    [][]string // declared symbols of each :pattern (an axiom can only fire if one pattern's symbols all occur)
	quant   bool
}

func splitForms(text string) []string {
	var out []string
	depth, start := 0, -1
	inStr, inBar, inCom := false, false, false
	for i := 0; i < len(text); i++ {
		c := text[i]
		if inCom {
			if c == '\n' {
				inCom = false
			}
			continue
		}
		if inStr {
			if c == '"' {
				inStr = false
			}
			continue
		}
		if inBar {
			if c == '|' {
				inBar = false
			}
			continue
		}
		switch c {
		case ';':
			inCom = true
		case '"':
			inStr = true
		case '|':
			inBar = true
		case '(':
			if depth == 0 {
				start = i
			}
			depth++
		case ')':
			depth--
			if depth == 0 && start >= 0 {
				out = append(out, text[start:i+1])
				start = -1
			}
		}
	}
	return out
}

func (e *Engine) rawForms() []rawForm {
	e.mu.Lock()
	defer e.mu.Unlock()
	if e.forms != nil {
		return e.forms
	}
	var texts []string
	for _, ax := range strAxioms {
		texts = append(texts, ax.text)
	}
	for _, raw := range e.cs.SmtRaw {
		texts = append(texts, splitForms(raw)...)
	}
	declared := map[string]bool{}
	for _, l := range strings.Split(preludeCore, "\n") {
		t := sexpTokens(l)
		if len(t) > 2 && (t[1] == "declare-fun" || t[1] == "declare-const") {
			declared[t[2]] = true
		}
	}
	var forms []rawForm
	for _, t := range texts {
		toks := sexpTokens(t)
		f := rawForm{text: t}
		if len(toks) > 2 && (toks[1] == "declare-fun" || toks[1] == "declare-const" || toks[1] == "define-fun" || toks[1] == "define-fun-rec") {
			f.declare = toks[2]
			declared[toks[2]] = true
		}
		f.quant = strings.Contains(t, "(forall ") || strings.Contains(t, "(exists ")
		forms = append(forms, f)
	}
	for i := range forms {
		seen := map[string]bool{}
		toks := sexpTokens(forms[i].text)
		for _, tk := range toks {
			if declared[tk] && !seen[tk] && tk != forms[i].declare {
				seen[tk] = true
				forms[i].uses = append(forms[i].uses, tk)
			}
		}
		if forms[i].declare == "" {
			// only the outermost quantifier's patterns decide inclusion: take patterns at the
			// end of the form (after the last body token) - approximated by scanning all :pattern
			// groups and keeping those of the outermost annotation (the last contiguous run).
			var runs [][][]string
			var cur [][]string
			for k := 0; k < len(toks); k++ {
				if toks[k] == ":pattern" && k+1 < len(toks) && toks[k+1] == "(" {
					depth := 0
					var syms []string
					j := k + 1
					for ; j < len(toks); j++ {
						if toks[j] == "(" {
							depth++
						} else if toks[j] == ")" {
							depth--
							if depth == 0 {
								break
							}
						} else if declared[toks[j]] {
							syms = append(syms, toks[j])
						}
					}
					if len(syms) > 0 {
						cur = append(cur, syms)
					}
					k = j
					continue
				}
				if toks[k] != ")" && len(cur) > 0 {
					runs = append(runs, cur)
					cur = nil
				}
			}
			if len(cur) > 0 {
				runs = append(runs, cur)
			}
			if len(runs) > 0 {
				forms[i].pats = runs[len(runs)-1]
			}
		}
	}
	// Contract files are loaded in package order, which need not be dependency order: a definition
	// is emitted after the declarations/definitions of the symbols it uses (stable otherwise), and
	// assertions after all of them.
	declBy := map[string]int{}
	for i, f := range forms {
		if f.declare != "" {
			declBy[f.declare] = i
		}
	}
	emitted := make([]bool, len(forms))
	var ordered []rawForm
	for progress := true; progress; {
		progress = false
		for i, f := range forms {
			if emitted[i] || f.declare == "" {
				continue
			}
			ready := true
			for _, u := range f.uses {
				if j, ok := declBy[u]; ok && j != i && !emitted[j] {
					ready = false
					break
				}
			}
			if ready {
				emitted[i] = true
				ordered = append(ordered, f)
				progress = true
			}
		}
	}
	for i, f := range forms {
		if !emitted[i] { // assertions, and definitions in a dependency cycle (kept in file order)
			ordered = append(ordered, f)
		}
	}
	forms = ordered
	e.forms = forms
	e.declared = declared
	return forms
}

func (e *Engine) vcText(vc *VC, withModel bool, relaxed bool) string {
	forms := e.rawForms()
	var sb strings.Builder
	body := strings.Join(vc.Decls, "\n") + "\n" + strings.Join(vc.Hyps, "\n") + "\n" + vc.Goal
	used := map[string]bool{}
	for _, tk := range sexpTokens(body) {
		if e.declared[tk] {
			used[tk] = true
		}
	}
	include := make([]bool, len(forms))
	for changed := true; changed; {
		changed = false
		for i, f := range forms {
			if include[i] {
				continue
			}
			inc := false
			if f.declare != "" {
				inc = used[f.declare]
			} else if len(f.pats) > 0 {
				for _, p := range f.pats {
					all := true
					for _, u := range p {
						if !used[u] {
							all = false
							break
						}
					}
					if all {
						inc = true
						break
					}
				}
			} else {
				for _, u := range f.uses {
					if used[u] {
						inc = true
						break
					}
				}
			}
			if inc {
				include[i] = true
				changed = true
				for _, u := range f.uses {
					used[u] = true
				}
			}
		}
	}
	sb.WriteString("(set-option :produce-models true)\n(set-logic ALL)\n")
	sb.WriteString(preludeCore)
	for i, f := range forms {
		if include[i] && !(relaxed && f.quant && f.declare == "") && f.text != e.lemmaSelf[vc.Owner] {
			sb.WriteString(f.text + "\n")
		}
	}
	for _, d := range vc.Decls {
		sb.WriteString(d + "\n")
	}
	for _, h := range vc.Hyps {
		if relaxed && (strings.Contains(h, "(forall ") || strings.Contains(h, "(exists ")) {
			continue
		}
		sb.WriteString("(assert " + h + ")\n")
	}
	sb.WriteString("(assert (not " + vc.Goal + "))\n")
	sb.WriteString("(check-sat)\n")
	if withModel {
		sb.WriteString("(get-model)\n")
	}
	return sb.String()
}

var safeName = regexp.MustCompile(`[^A-Za-z0-9_.\-]+`)

func runSolver(ctx context.Context, s SolverCfg, file string, timeoutMs int) (string, string, int64) {
	t0 := time.Now()
	cctx, cancel := context.WithTimeout(ctx, time.Duration(timeoutMs+1500)*time.Millisecond)
	defer cancel()
	cmd := exec.CommandContext(cctx, s.Cmd[0], append(s.Cmd[1:], file)...)
	var out bytes.Buffer
	cmd.Stdout = &out
	cmd.Stderr = &out
	_ = cmd.Run()
	ms := time.Since(t0).Milliseconds()
	text := out.String()
	// the verdict is the first line that is not a solver warning (z3 warns about unusable patterns)
	first := ""
	for _, l := range strings.Split(text, "\n") {
		l = strings.TrimSpace(l)
		if l == "" || strings.HasPrefix(l, "WARNING") {
			continue
		}
		first = l
		break
	}
	switch first {
	case "unsat", "sat", "unknown":
		return first, text, ms
	case "timeout":
		return "timeout", text, ms
	}
	if strings.Contains(text, "interrupted by timeout") {
		return "timeout", text, ms
	}
	if cctx.Err() != nil {
		return "timeout", text, ms
	}
	return "error", text, ms
}

// discharge runs the portfolio over all VCs.
func (e *Engine) discharge(outDir string, timeoutMs int, allSolvers bool, workers int) {
	os.MkdirAll(outDir, 0o755)
	type job struct {
		ob *Obligation
		vc *VC
		i  int
	}
	var jobs []job
	for _, name := range e.oblOrder {
		ob := e.obls[name]
		for i, vc := range ob.VCs {
			if vc.Result == "" {
				jobs = append(jobs, job{ob, vc, i})
			}
		}
	}
	// dedupe identical VC texts
	cache := map[string]*VC{}
	var cmu sync.Mutex
	ch := make(chan job)
	var wg sync.WaitGroup
	solvers := solverList(timeoutMs)
	for w := 0; w < workers; w++ {
		wg.Add(1)
		go func() {
			defer wg.Done()
			for j := range ch {
				text := e.vcText(j.vc, true, false)
				cmu.Lock()
				if prev, ok := cache[text]; ok && prev.Result != "" {
					j.vc.Result, j.vc.Solver, j.vc.Ms, j.vc.Model, j.vc.Output = prev.Result, prev.Solver+"(cached)", 0, prev.Model, prev.Output
					cmu.Unlock()
					continue
				}
				cmu.Unlock()
				file := filepath.Join(outDir, safeName.ReplaceAllString(j.ob.Name, "_"))
				if len(file) > 190 {
					file = file[:190]
				}
				// distinct obligations must never share a file (names can collide after sanitising/truncation)
				hs := fnv.New32a()
				hs.Write([]byte(j.ob.Name))
				file = fmt.Sprintf("%s.%08x.%d.smt2", file, hs.Sum32(), j.i)
				os.WriteFile(file, []byte(text), 0o644)
				if j.ob.Class == "infer" {
					// candidates that are not inductive often come back "unknown": a short budget is enough
					// (an undecided candidate is simply not assumed)
					e.solveOne(j.vc, file, solverList(1500), 1500, false)
				} else if j.ob.Class == "canary" && !allSolvers {
					// vacuity canaries are expected NOT to be provable: give them a short budget
					e.solveOne(j.vc, file, solverList(1200), 1200, true)
				} else {
					e.solveOne(j.vc, file, solvers, timeoutMs, allSolvers)
				}
				cmu.Lock()
				cache[text] = j.vc
				cmu.Unlock()
			}
		}()
	}
	for _, j := range jobs {
		ch <- j
	}
	close(ch)
	wg.Wait()
	// Escalation: an obligation nobody decided within the budget (a loaded machine, an unlucky
	// solver run) is tried again, a few at a time, with six times the budget before it may count as
	// failed. "sat" answers are never retried: a counterexample is a counterexample.
	var retry []job
	for _, j := range jobs {
		if j.ob.Class == "canary" || j.ob.Class == "infer" {
			continue
		}
		if j.vc.Result == "unknown" || j.vc.Result == "timeout" || j.vc.Result == "error" {
			retry = append(retry, j)
		}
	}
	if len(retry) > 0 && len(retry) <= 64 {
		ch2 := make(chan job)
		var wg2 sync.WaitGroup
		big := timeoutMs * 6
		for w := 0; w < 4; w++ {
			wg2.Add(1)
			go func() {
				defer wg2.Done()
				for j := range ch2 {
					hs := fnv.New32a()
					hs.Write([]byte(j.ob.Name))
					file := filepath.Join(outDir, safeName.ReplaceAllString(j.ob.Name, "_"))
					if len(file) > 190 {
						file = file[:190]
					}
					file = fmt.Sprintf("%s.%08x.%d.smt2", file, hs.Sum32(), j.i)
					prev := j.vc.Result
					j.vc.Result, j.vc.Candidate = "", false
					e.solveOne(j.vc, file, solverList(big), big, allSolvers)
					if j.vc.Result == "unsat" {
						j.vc.Solver += "(retried after " + prev + ")"
					}
				}
			}()
		}
		for _, j := range retry {
			ch2 <- j
		}
		close(ch2)
		wg2.Wait()
	}
}

func (e *Engine) solveOne(vc *VC, file string, solvers []SolverCfg, timeoutMs int, all bool) {
	// z3-new and cvc5 race; the first definite answer wins (unless all: then every solver is
	// heard and disagreement is reported). z3 4.8.12 is consulted only for a model afterwards.
	type ans struct {
		name, r, out string
		ms           int64
	}
	ctx, cancel := context.WithCancel(context.Background())
	defer cancel()
	racers := solvers[:2]
	ch := make(chan ans, len(racers))
	for _, s := range racers {
		go func(s SolverCfg) {
			r, out, ms := runSolver(ctx, s, file, timeoutMs)
			ch <- ans{s.Name, r, out, ms}
		}(s)
	}
	results := map[string]string{}
	outs := map[string]string{}
	var unsatBy, satBy string
	for range racers {
		a := <-ch
		results[a.name], outs[a.name] = a.r, a.out
		vc.Ms += a.ms
		if a.r == "unsat" && unsatBy == "" {
			unsatBy = a.name
		}
		if a.r == "sat" && satBy == "" {
			satBy = a.name
		}
		if !all && (a.r == "unsat" || a.r == "sat") {
			cancel()
			break
		}
	}
	switch {
	case unsatBy != "" && satBy != "":
		vc.Result, vc.Solver = "disagree", unsatBy+"/"+satBy
		vc.Output = outs[satBy]
		return
	case unsatBy != "":
		vc.Result, vc.Solver, vc.Output = "unsat", unsatBy, outs[unsatBy]
		return
	case satBy != "":
		vc.Result, vc.Solver, vc.Output, vc.Model = "sat", satBy, outs[satBy], outs[satBy]
		return
	}
	// nobody decided: z3 4.8.12 may still find a model (its unsat is never trusted)
	if vc.Goal != "false" {
		r, out, ms := runSolver(context.Background(), solvers[2], file, timeoutMs/2)
		vc.Ms += ms
		results[solvers[2].Name] = r
		if r == "unsat" {
			results[solvers[2].Name] = "unsat(untrusted)"
		}
		if r == "sat" {
			vc.Result, vc.Solver, vc.Output, vc.Model = "sat", solvers[2].Name, out, out
			return
		}
	}
	vc.Result = "unknown"
	var parts []string
	for _, s := range solvers {
		if results[s.Name] != "" {
			parts = append(parts, s.Name+"="+results[s.Name])
		}
	}
	vc.Solver = strings.Join(parts, ",")
	vc.Output = outs[solvers[0].Name]
	// the quantifier-free relaxation drops hypotheses only: if it is already unsatisfiable the
	// obligation holds; a model of it is a candidate counterexample (validated only by replay)
	if strings.Contains(vc.Goal, "(forall ") || vc.Goal == "false" {
		return
	}
	rf := strings.TrimSuffix(file, ".smt2") + ".relaxed.smt2"
	os.WriteFile(rf, []byte(e.vcText(vc, true, true)), 0o644)
	for _, s := range solvers[:2] {
		r, out, ms := runSolver(context.Background(), s, rf, timeoutMs)
		vc.Ms += ms
		if r == "unsat" {
			vc.Result, vc.Solver, vc.Output = "unsat", s.Name+"(without quantified hypotheses)", out
			return
		}
		if r == "sat" {
			vc.Model = out
			vc.Candidate = true
			vc.Output += "\n; candidate model from quantifier-free relaxation (" + s.Name + "):\n" + out
			break
		}
	}
}

// parseModel extracts (define-fun name () Sort value) entries from a z3/cvc5 model.
func parseModel(text string) map[string]string {
	m := map[string]string{}
	toks := sexpTokens(text)
	for i := 0; i+4 < len(toks); i++ {
		if toks[i] == "(" && toks[i+1] == "define-fun" && toks[i+3] == "(" && toks[i+4] == ")" {
			name := strings.Trim(toks[i+2], "|")
			// sort
			_, j := readSort(toks, i+5)
			val, _ := readSort(toks, j)
			m[name] = val
		}
	}
	return m
}
