package stdmath

// Replay driver for property C19. Oracle: an independent recursive-descent evaluator with the
// documented order of operations (^ then shifts then * / % then & | then + - then comparisons
// then && ||; equal levels left to right; parentheses first), never the implementation.
// Bounded search: generated formulas of depth <= 3 over a small operand set, all bindings from a
// boundary grid, plus the finite exhaustive check that opCodeOrder is total on all operator pairs.

import (
	"fmt"
	"math"
	"strings"
	"testing"
)

type vrCtx struct{ v []float64 }

func (c *vrCtx) GetMatch(i int) float64 {
	if i >= 0 && i < len(c.v) {
		return c.v[i]
	}
	return 0
}
func (c *vrCtx) GetKey(string) float64 { return 0 }

func vrSafeEval(formula string, binds []float64) (val float64, cerr error, p interface{}) {
	defer func() {
		if r := recover(); r != nil {
			p = r
		}
	}()
	e, err := Compile(formula)
	if err != nil {
		return 0, err, nil
	}
	return e.Eval(&vrCtx{binds}), nil, nil
}

// ---- reference evaluator over an explicit tree ----
type vrNode struct {
	op   string // "" leaf
	leaf string
	l, r *vrNode
	un   string
}

var vrLevels = [][]string{{"^"}, {">>", "<<"}, {"*", "/", "%"}, {"&", "|"}, {"+", "-"}, {"==", "<=", ">=", ">", "<"}, {"&&", "||"}}

func vrLevel(op string) int {
	for i, l := range vrLevels {
		for _, o := range l {
			if o == op {
				return i
			}
		}
	}
	return -1
}

func vrB(b bool) float64 {
	if b {
		return 1
	}
	return 0
}

func vrApply(op string, a, b float64) float64 {
	switch op {
	case "+":
		return a + b
	case "-":
		return a - b
	case "*":
		return a * b
	case "/":
		return a / b
	case "^":
		return math.Pow(a, b)
	case "%":
		if int64(b) == 0 {
			return math.NaN()
		}
		return float64(int64(a) % int64(b))
	case "<<":
		if int64(b) < 0 {
			return math.NaN()
		}
		return float64(int64(a) << int64(b))
	case ">>":
		if int64(b) < 0 {
			return math.NaN()
		}
		return float64(int64(a) >> int64(b))
	case "&":
		return float64(int64(a) & int64(b))
	case "|":
		return float64(int64(a) | int64(b))
	case "<":
		return vrB(a < b)
	case "<=":
		return vrB(a <= b)
	case ">":
		return vrB(a > b)
	case ">=":
		return vrB(a >= b)
	case "==":
		return vrB(a == b)
	case "&&":
		return vrB(a != 0 && b != 0)
	case "||":
		return vrB(a != 0 || b != 0)
	}
	return math.NaN()
}

func (n *vrNode) eval(binds []float64) float64 {
	if n.un != "" {
		v := n.l.eval(binds)
		if n.un == "-" {
			return -v
		}
		return vrB(v == 0)
	}
	if n.op == "" {
		switch n.leaf {
		case "[0]":
			return binds[0]
		case "[1]":
			return binds[1]
		}
		var f float64
		fmt.Sscanf(n.leaf, "%g", &f)
		if strings.HasPrefix(n.leaf, "0x") {
			var i int64
			fmt.Sscanf(n.leaf, "0x%x", &i)
			f = float64(i)
		}
		return f
	}
	return vrApply(n.op, n.l.eval(binds), n.r.eval(binds))
}

// print with only the parentheses the documented precedence requires
func (n *vrNode) print(parentLevel int, rightSide bool) string {
	if n.un != "" {
		return n.un + "(" + n.l.print(99, false) + ")"
	}
	if n.op == "" {
		return n.leaf
	}
	lv := vrLevel(n.op)
	s := n.l.print(lv, false) + " " + n.op + " " + n.r.print(lv, true)
	if lv > parentLevel || (lv == parentLevel && rightSide) {
		return "(" + s + ")"
	}
	return s
}

func vrSame(a, b float64) bool {
	if math.IsNaN(a) && math.IsNaN(b) {
		return true
	}
	if math.IsInf(a, 0) || math.IsInf(b, 0) {
		return a == b
	}
	return a == b || math.Abs(a-b) <= 1e-9*math.Max(math.Abs(a), math.Abs(b))
}

func TestVerifReplayMath(t *testing.T) {
	// 1. no formula or binding crashes; malformed formulas are rejected
	crashers := []string{"5 % 0", "[0] % [1]", "[0] << [1]", "[0] >> [1]", "1 << -1", "-", "1+-", "!", "1 + !", "(", ")", "()", "1 +", "* 2", "2 (3", "abs", "-(", "1 -- 1", "[0] ^ [1]", "sqrt(-1)", "1/0", "0x", "0b2", "1e999", "[99999999999999999999]"}
	grid := []float64{0, 1, -1, 2, -2, 0.5, 63, 64, -64, 1e18, -1e18, 1e300, math.Inf(1), math.NaN()}
	for _, f := range crashers {
		for _, a := range grid {
			for _, b := range grid {
				if _, _, p := vrSafeEval(f, []float64{a, b}); p != nil {
					fmt.Printf("REPRODUCED: formula %q with [0]=%v [1]=%v panics: %v\n", f, a, b, p)
					t.Fail()
					return
				}
			}
		}
	}
	for _, f := range []string{"-", "1+-", "1 +", "(", ")", "2 (3", "1 $ 2", "a = b", "x.y + 1"} {
		if _, err, _ := vrSafeEval(f, []float64{0, 0}); err == nil {
			fmt.Printf("REPRODUCED: malformed formula %q is accepted at compile time\n", f)
			t.Fail()
			return
		}
	}
	// 2. precedence: generated trees printed with minimal parentheses evaluate like the tree
	leaves := []string{"1", "2", "3", "0", "[0]", "[1]", "0x10", "2.5"}
	ops := []string{"+", "-", "*", "/", "^", "%", "<<", ">>", "&", "|", "<", "<=", ">", ">=", "==", "&&", "||"}
	var trees []*vrNode
	for _, l := range leaves {
		trees = append(trees, &vrNode{leaf: l})
	}
	depth1 := append([]*vrNode{}, trees...)
	var depth2 []*vrNode
	for i, a := range depth1 {
		for j, b := range depth1 {
			if (i+j)%3 != 0 {
				continue
			}
			for _, o := range ops {
				depth2 = append(depth2, &vrNode{op: o, l: a, r: b})
			}
		}
	}
	var depth3 []*vrNode
	for i, a := range depth2 {
		if i%7 != 0 {
			continue
		}
		for j, b := range depth1 {
			if j%2 != 0 {
				continue
			}
			for _, o := range ops {
				depth3 = append(depth3, &vrNode{op: o, l: a, r: b}, &vrNode{op: o, l: b, r: a})
			}
		}
		depth3 = append(depth3, &vrNode{un: "-", l: a}, &vrNode{un: "!", l: a})
	}
	all := append(append(depth2, depth3...), &vrNode{op: "&&", l: &vrNode{leaf: "[0]"}, r: &vrNode{op: "==", l: &vrNode{leaf: "[1]"}, r: &vrNode{leaf: "2"}}},
		&vrNode{op: "*", l: &vrNode{op: "+", l: &vrNode{un: "-", l: &vrNode{leaf: "3"}}, r: &vrNode{leaf: "4"}}, r: &vrNode{leaf: "2"}})
	bindings := [][]float64{{1, 2}, {0, 0}, {-3, 5}, {7, -2}, {2.5, 3}}
	for _, tr := range all {
		f := tr.print(99, false)
		for _, b := range bindings {
			got, err, p := vrSafeEval(f, b)
			if p != nil {
				fmt.Printf("REPRODUCED: formula %q with %v panics: %v\n", f, b, p)
				t.Fail()
				return
			}
			if err != nil {
				fmt.Printf("REPRODUCED: well-formed formula %q rejected: %v\n", f, err)
				t.Fail()
				return
			}
			want := tr.eval(b)
			if !vrSame(got, want) {
				fmt.Printf("REPRODUCED: formula %q with [0]=%v [1]=%v evaluates to %v, its parse under the documented order of operations gives %v\n", f, b[0], b[1], got, want)
				t.Fail()
				return
			}
		}
	}
	// 2b. literal forms (0x / 0b / decimal / exponent) next to every arithmetic operator, written
	// with and without blanks: the literal ends where the operator starts, whatever its last digit
	lits := []struct {
		s string
		v float64
	}{{"0x1e", 30}, {"0xBE", 190}, {"0x0e", 14}, {"0xfe", 254}, {"0x1f", 31}, {"0xE", 14}, {"0b101", 5}, {"0b1110", 14}, {"10", 10}, {"2.5", 2.5}, {"1e3", 1000}, {"7", 7}}
	for _, a := range lits {
		for _, b := range lits {
			for _, o := range []string{"+", "-", "*", "/"} {
				for _, f := range []string{a.s + o + b.s, a.s + " " + o + " " + b.s, "(" + a.s + o + b.s + ")" + o + "2", "2*" + a.s + o + "1"} {
					var want float64
					switch {
					case strings.HasPrefix(f, "("):
						want = vrApply(o, vrApply(o, a.v, b.v), 2)
					case strings.HasPrefix(f, "2*"):
						if o == "*" || o == "/" {
							want = vrApply(o, 2*a.v, 1)
						} else {
							want = vrApply(o, 2*a.v, 1)
						}
					default:
						want = vrApply(o, a.v, b.v)
					}
					got, err, p := vrSafeEval(f, []float64{0, 0})
					if p != nil || err != nil {
						fmt.Printf("REPRODUCED: well-formed formula %q rejected or panics: %v %v\n", f, err, p)
						t.Fail()
						return
					}
					if !vrSame(got, want) {
						fmt.Printf("REPRODUCED: formula %q evaluates to %v, want %v\n", f, got, want)
						t.Fail()
						return
					}
				}
			}
		}
	}
	// 2c. implied multiplication: `b(c)` is `b * (c)`, an ordinary `*` at its own level, next to
	// every binary operator on either side and after a function call
	for _, o := range ops {
		for _, a := range []string{"12", "[0]", "2.5"} {
			for _, b := range []string{"2", "[1]", "3"} {
				for _, c := range []string{"3", "[0]", "1 + 1"} {
					na, nb, nc := &vrNode{leaf: a}, &vrNode{leaf: b}, &vrNode{leaf: c}
					if c == "1 + 1" {
						nc = &vrNode{op: "+", l: &vrNode{leaf: "1"}, r: &vrNode{leaf: "1"}}
					}
					var right, left *vrNode // a o b(c)   and   a(c) o b
					if vrLevel(o) <= vrLevel("*") {
						right = &vrNode{op: "*", l: &vrNode{op: o, l: na, r: nb}, r: nc}
					} else {
						right = &vrNode{op: o, l: na, r: &vrNode{op: "*", l: nb, r: nc}}
					}
					if vrLevel("*") <= vrLevel(o) {
						left = &vrNode{op: o, l: &vrNode{op: "*", l: na, r: nc}, r: nb}
					} else {
						left = &vrNode{op: "*", l: na, r: &vrNode{op: o, l: nc, r: nb}}
					}
					for f, tr := range map[string]*vrNode{a + " " + o + " " + b + "(" + c + ")": right, a + "(" + c + ") " + o + " " + b: left} {
						for _, bd := range bindings {
							got, err, p := vrSafeEval(f, bd)
							if p != nil || err != nil {
								fmt.Printf("REPRODUCED: well-formed formula %q rejected or panics: %v %v\n", f, err, p)
								t.Fail()
								return
							}
							if want := tr.eval(bd); !vrSame(got, want) {
								fmt.Printf("REPRODUCED: formula %q with [0]=%v [1]=%v evaluates to %v; with the implied multiplication written as * (%q) the documented order gives %v\n", f, bd[0], bd[1], got, tr.print(99, false), want)
								t.Fail()
								return
							}
						}
					}
				}
			}
		}
	}
	for _, bd := range bindings {
		for f, want := range map[string]float64{"floor([0])(2)": math.Floor(bd[0]) * 2, "abs([1])(3)^2": math.Abs(bd[1]) * 9, "2(3)(4)": 24, "-[0](2)": -bd[0] * 2} {
			if got, err, p := vrSafeEval(f, bd); p != nil || err != nil || !vrSame(got, want) {
				fmt.Printf("REPRODUCED: formula %q with [0]=%v [1]=%v evaluates to %v (err=%v panic=%v), want %v\n", f, bd[0], bd[1], got, err, p, want)
				t.Fail()
				return
			}
		}
	}
	// 3. constants equal bound variables
	for _, tr := range depth2 {
		f := tr.print(99, false)
		fc := strings.NewReplacer("[0]", "7", "[1]", "-2").Replace(f)
		a, _, _ := vrSafeEval(f, []float64{7, -2})
		b, errc, _ := vrSafeEval(fc, []float64{0, 0})
		if errc == nil && !vrSame(a, b) {
			fmt.Printf("REPRODUCED: %q with [0]=7 [1]=-2 gives %v but with the constants written in (%q) gives %v\n", f, a, fc, b)
			t.Fail()
			return
		}
	}
}

func TestVerifReplayOpOrder(t *testing.T) {
	codes := []OpCode{""}
	for k := range ops {
		codes = append(codes, k)
	}
	for _, a := range codes {
		for _, b := range codes {
			if b == "" {
				continue // the second operand always comes from getNextOp: a key of ops
			}
			func() {
				defer func() {
					if r := recover(); r != nil {
						fmt.Printf("REPRODUCED: opCodeOrder(%q, %q) panics: %v\n", a, b, r)
						t.Fail()
					}
				}()
				opCodeOrder(a, b)
			}()
		}
	}
}
