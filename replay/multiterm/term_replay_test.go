package multiterm

// Replay driver for property C20. Oracle: a reference VT100-subset emulator (newline, CR,
// ESC[<n>A, ESC[0K, ESC[?25l/h, printable runes; colour escapes ESC[..m are zero width)
// interpreting the bytes written to os.Stdout, compared with the last-write map.
// Bounded: all update sequences of length <= 4 over lines 0..3 and 5 texts, 3 widths.

import (
	"fmt"
	"io"
	"os"
	"strings"
	"testing"
)

type vrScreen struct {
	rows    map[int][]rune
	row     int
	col     int
	hidden  bool
	maxRow  int
	tooWide string
	width   int
}

func (s *vrScreen) feed(out string) {
	r := []rune(out)
	for i := 0; i < len(r); i++ {
		c := r[i]
		switch {
		case c == '\n':
			s.row++
			s.col = 0
		case c == '\r':
			s.col = 0
		case c == '\x1b':
			j := i + 1
			for j < len(r) && !((r[j] >= 'A' && r[j] <= 'Z') || (r[j] >= 'a' && r[j] <= 'z')) {
				j++
			}
			if j >= len(r) {
				s.tooWide = "output ends inside an escape sequence: " + fmt.Sprintf("%q", string(r[i:]))
				return
			}
			seq := string(r[i+1 : j+1])
			switch {
			case seq == "[?25l":
				s.hidden = true
			case seq == "[?25h":
				s.hidden = false
			case seq == "[0K":
				if line, ok := s.rows[s.row]; ok && s.col < len(line) {
					s.rows[s.row] = line[:s.col]
				}
			case strings.HasSuffix(seq, "A"):
				n := 1
				fmt.Sscanf(seq, "[%dA", &n)
				s.row -= n
			case strings.HasSuffix(seq, "m"):
				// colour: zero width
			}
			i = j
		default:
			line := s.rows[s.row]
			for len(line) <= s.col {
				line = append(line, ' ')
			}
			line[s.col] = c
			s.rows[s.row] = line
			s.col++
			if s.col > s.width {
				s.tooWide = fmt.Sprintf("row %d grows to %d visible characters on a terminal %d wide", s.row, s.col, s.width)
			}
		}
		if s.row > s.maxRow {
			s.maxRow = s.row
		}
	}
}

func vrCapture(f func()) string {
	old := os.Stdout
	r, w, _ := os.Pipe()
	os.Stdout = w
	done := make(chan string)
	go func() {
		b, _ := io.ReadAll(r)
		done <- string(b)
	}()
	f()
	w.Close()
	os.Stdout = old
	return <-done
}

func vrVisible(s string, width int) string {
	// the longest prefix with at most width visible runes that does not end inside ESC[..m
	r := []rune(s)
	vis := 0
	out := 0
	for i := 0; i < len(r); {
		if r[i] == '\x1b' {
			j := i
			for j < len(r) && r[j] != 'm' {
				j++
			}
			if j >= len(r) {
				break
			}
			i = j + 1
			out = i
			continue
		}
		if vis == width {
			break
		}
		vis++
		i++
		out = i
	}
	return string(r[:out])
}

func vrPlain(s string) string {
	var sb strings.Builder
	r := []rune(s)
	for i := 0; i < len(r); i++ {
		if r[i] == '\x1b' {
			for i < len(r) && r[i] != 'm' {
				i++
			}
			continue
		}
		sb.WriteRune(r[i])
	}
	return sb.String()
}

type vrOp struct {
	line int
	text string
}

func TestVerifReplayTerm(t *testing.T) {
	savedTrim, savedCols := AutoTrim, computedCols
	defer func() { AutoTrim, computedCols = savedTrim, savedCols }()
	texts := []string{"", "ab", "abcdefghij", "\x1b[31mred\x1b[0m!", "x\x1b[1myz\x1b[0mw0123456789"}
	var seqs [][]vrOp
	var gen func(n int, cur []vrOp)
	gen = func(n int, cur []vrOp) {
		if len(cur) > 0 {
			seqs = append(seqs, append([]vrOp(nil), cur...))
		}
		if n == 0 {
			return
		}
		for line := 0; line < 4; line++ {
			for ti := range texts {
				if (line+ti+n)%3 == 0 || len(cur) < 2 {
					gen(n-1, append(cur, vrOp{line, texts[ti]}))
				}
			}
		}
	}
	gen(4, nil)
	for _, width := range []int{3, 5, 80} {
		AutoTrim, computedCols = true, width
		for _, seq := range seqs {
			want := map[int]string{}
			maxLine := 0
			out := vrCapture(func() {
				tw := New()
				for _, op := range seq {
					tw.WriteForLine(op.line, op.text)
					want[op.line] = op.text
					if op.line > maxLine {
						maxLine = op.line
					}
				}
				tw.Close()
			})
			scr := &vrScreen{rows: map[int][]rune{}, width: width}
			scr.feed(out)
			if scr.tooWide != "" {
				fmt.Printf("REPRODUCED: width=%d updates=%v: %s\n", width, seq, scr.tooWide)
				t.Fail()
				return
			}
			for line, text := range want {
				got := strings.TrimRight(string(scr.rows[line]), " ")
				exp := strings.TrimRight(vrPlain(vrVisible(text, width)), " ")
				if got != exp {
					fmt.Printf("REPRODUCED: width=%d updates=%v: line %d shows %q, the text most recently written (cut to the width) is %q\n", width, seq, line, got, exp)
					t.Fail()
					return
				}
			}
			if scr.row != maxLine+1 || scr.hidden {
				fmt.Printf("REPRODUCED: width=%d updates=%v: after Close the cursor is on row %d (hidden=%v), it must be parked on row %d and visible\n", width, seq, scr.row, scr.hidden, maxLine+1)
				t.Fail()
				return
			}
			// buffered writer prints the same final lines top to bottom
			bout := vrCapture(func() {
				bt := NewBufferedTerm()
				for _, op := range seq {
					bt.WriteForLine(op.line, op.text)
				}
				bt.Close()
			})
			lines := strings.Split(strings.TrimSuffix(bout, "\n"), "\n")
			for line := 0; line <= maxLine; line++ {
				exp := vrVisible(want[line], width)
				got := ""
				if line < len(lines) {
					got = lines[line]
				}
				endsInEsc := false
				if k := strings.LastIndex(got, "\x1b"); k >= 0 && !strings.Contains(got[k:], "m") {
					endsInEsc = true
				}
				if !strings.HasPrefix(want[line], got) || vrPlain(got) != vrPlain(exp) || endsInEsc {
					fmt.Printf("REPRODUCED: width=%d updates=%v: buffered writer prints line %d as %q; want a prefix of %q with the visible text %q that does not end inside an escape\n", width, seq, line, got, want[line], vrPlain(exp))
					t.Fail()
					return
				}
			}
		}
	}
}
