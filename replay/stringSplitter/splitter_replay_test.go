package stringSplitter

// Replay driver for (*Splitter).Next: compares the element sequence with strings.Split
// (the list semantics of property C17 / C07) on all small inputs.

import (
	"fmt"
	"strings"
	"testing"
)

func vrSplitAll(s, d string) (out []string, steps int) {
	sp := Splitter{S: s, Delim: d}
	for !sp.Done() {
		out = append(out, sp.Next())
		steps++
		if steps > len(s)+2 {
			return out, -1
		}
	}
	return out, steps
}

func TestVerifReplaySplitter(t *testing.T) {
	alphabet := []byte{'a', '-', '+'}
	var gen func(n int, cur []byte, f func(string))
	gen = func(n int, cur []byte, f func(string)) {
		f(string(cur))
		if n == 0 {
			return
		}
		for _, c := range alphabet {
			gen(n-1, append(cur, c), f)
		}
	}
	delims := []string{"-", "--", "-+", "+-+", "\x00", "é"}
	fail := false
	gen(6, nil, func(s string) {
		if fail {
			return
		}
		for _, d := range delims {
			got, steps := vrSplitAll(s, d)
			want := strings.Split(s, d)
			if steps < 0 || strings.Join(got, "\x01") != strings.Join(want, "\x01") {
				fmt.Printf("REPRODUCED: Splitter{S:%q, Delim:%q} yields %q, list semantics demand %q\n", s, d, got, want)
				fail = true
				return
			}
		}
	})
	if fail {
		t.Fail()
	}
}
