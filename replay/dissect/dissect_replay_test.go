package dissect

// Replay driver for property C12. Oracle: a direct transcription of the property text
// (first occurrence of the leading literal, then for each %{token} the text up to the first
// following occurrence of its trailing literal, to the end of line if it has none), written
// with strings.Index only. Bounded search over small patterns and lines.

import (
	"fmt"
	"strings"
	"testing"
)

type vrTok struct {
	name, until string
	skip        bool
}

// parse a pattern the way the documentation describes it (independent of CompileEx)
func vrParse(p string) (prefix string, toks []vrTok, ok bool) {
	i := strings.Index(p, "%{")
	if i < 0 {
		return p, nil, true
	}
	prefix = p[:i]
	rest := p[i:]
	seen := map[string]bool{}
	for len(rest) > 0 {
		if !strings.HasPrefix(rest, "%{") {
			return "", nil, false
		}
		j := strings.Index(rest, "}")
		if j < 0 {
			return "", nil, false
		}
		name := rest[2:j]
		rest = rest[j+1:]
		k := strings.Index(rest, "%")
		until := rest
		if k >= 0 {
			until = rest[:k]
			if k == 0 {
				return "", nil, false
			}
		}
		rest = rest[len(until):]
		t := vrTok{name: name, until: until}
		if name == "" {
			t.skip = true
		} else if name[0] == '?' {
			t.skip = true
		} else {
			if seen[name] {
				return "", nil, false
			}
			seen[name] = true
		}
		toks = append(toks, t)
	}
	return prefix, toks, true
}

func vrSpec(prefix string, toks []vrTok, line string) []int {
	start := 0
	if prefix != "" {
		i := strings.Index(line, prefix)
		if i < 0 {
			return nil
		}
		start = i + len(prefix)
	}
	ret := []int{start - len(prefix), 0}
	for _, t := range toks {
		end := len(line)
		if t.until != "" {
			e := strings.Index(line[start:], t.until)
			if e < 0 {
				return nil
			}
			end = start + e
		}
		if !t.skip {
			ret = append(ret, start, end)
		}
		start = end + len(t.until)
	}
	ret[1] = start
	return ret
}

func vrEq(a, b []int) bool {
	if (a == nil) != (b == nil) || len(a) != len(b) {
		return false
	}
	for i := range a {
		if a[i] != b[i] {
			return false
		}
	}
	return true
}

func vrAll(alphabet []string, n int) []string {
	out := []string{""}
	level := []string{""}
	for k := 0; k < n; k++ {
		var next []string
		for _, p := range level {
			for _, a := range alphabet {
				next = append(next, p+a)
			}
		}
		out = append(out, next...)
		level = next
	}
	return out
}

func TestVerifReplayDissect(t *testing.T) {
	patterns := []string{"%{a}", "x%{a}", "%{a}-%{b}", "x%{a}--%{b}.", "%{}-%{b}", "%{?s} %{b}:%{c}", "ab%{a}ab%{b}", "%{a}-%{}-%{c}x", "-%{a}", "%{a}x%{b}x%{c}", "é%{a}é", "%{a} - %{b}",
		// skip-only patterns with a leading literal, literal-only patterns, literal after the last token
		"x%{}", "ab%{?s}:", "x%{}-%{?t}.", "-%{}-%{a}", "ab", "x", "", "%{}", "a%{?n}b%{}x"}
	lines := vrAll([]string{"a", "b", "x", "-", ".", " ", ":"}, 5)
	lines = append(lines, "é1é", "xa--b.--c.", "ab1ab2ab3", "A-B", "X1", "ÉÉ")
	for _, p := range patterns {
		prefix, toks, ok := vrParse(p)
		d, err := CompileEx(p, false)
		if (err == nil) != ok {
			fmt.Printf("REPRODUCED: pattern %q: compile error=%v but the documented syntax says valid=%v\n", p, err, ok)
			t.Fail()
			return
		}
		if err != nil {
			continue
		}
		inst := d.CreateInstance()
		type held struct {
			line string
			got  []int
			copy []int
		}
		var hs []held
		for _, l := range lines {
			got := inst.FindSubmatchIndex([]byte(l))
			want := vrSpec(prefix, toks, l)
			if !vrEq(got, want) {
				fmt.Printf("REPRODUCED: dissect %q on %q gives %v, the specification gives %v\n", p, l, got, want)
				t.Fail()
				return
			}
			for i := 0; i+1 < len(got); i += 2 {
				if got[i] < 0 || got[i] > got[i+1] || got[i+1] > len(l) {
					fmt.Printf("REPRODUCED: dissect %q on %q: offsets %v not ordered/within the line\n", p, l, got)
					t.Fail()
					return
				}
			}
			if got != nil && len(hs) < 4000 {
				hs = append(hs, held{l, got, append([]int(nil), got...)})
			}
		}
		for _, h := range hs {
			if !vrEq(h.got, h.copy) {
				fmt.Printf("REPRODUCED: dissect %q: result for %q was %v when returned, now reads %v after matching later lines\n", p, h.line, h.copy, h.got)
				t.Fail()
				return
			}
		}
	}
	// name table
	d, _ := CompileEx("a%{x}b%{}c%{?n}d%{y}", false)
	if nt := d.SubexpNameTable(); nt["x"] != 1 || nt["y"] != 2 || len(nt) != 2 {
		fmt.Printf("REPRODUCED: SubexpNameTable of a%%{x}b%%{}c%%{?n}d%%{y} is %v, want x:1 y:2\n", nt)
		t.Fail()
	}
	for _, bad := range []string{"%{a", "%{a}%{b}", "%{a}-%{a}"} {
		if _, err := CompileEx(bad, false); err == nil {
			fmt.Printf("REPRODUCED: malformed pattern %q accepted\n", bad)
			t.Fail()
		}
	}
}

func TestVerifReplayDissectIgnoreCase(t *testing.T) {
	patterns := []string{"x%{a}", "X%{a}-%{b}", "aB%{a}Ab%{b}", "%{a}X%{b}", "%{a}::=%{b}", "é%{a}", "É%{a}", "%{a}é%{b}", "ß%{a}"}
	lines := vrAll([]string{"a", "A", "b", "B", "x", "X", "-", ":", "="}, 4)
	lines = append(lines, "é1", "É1", "aé1", "1920X1080", "a:::=b", "xaaab", "ß1", "ẞ1", "İ1")
	for _, p := range patterns {
		cs, err1 := CompileEx(p, false)
		ic, err2 := CompileEx(p, true)
		if err1 != nil || err2 != nil {
			continue
		}
		csi, ici := cs.CreateInstance(), ic.CreateInstance()
		ascii := true
		for i := 0; i < len(p); i++ {
			if p[i] >= 0x80 {
				ascii = false
			}
		}
		var lower *DissectInstance
		if ascii {
			l, _ := CompileEx(strings.ToLower(p), false)
			lower = l.CreateInstance()
		}
		for _, l := range lines {
			a := csi.FindSubmatchIndex([]byte(l))
			b := ici.FindSubmatchIndex([]byte(l))
			if a != nil && b == nil {
				fmt.Printf("REPRODUCED: pattern %q matches %q case-sensitively (%v) but not with ignore-case\n", p, l, a)
				t.Fail()
				return
			}
			lineASCII := true
			for i := 0; i < len(l); i++ {
				if l[i] >= 0x80 {
					lineASCII = false
				}
			}
			if lower != nil && lineASCII {
				w := lower.FindSubmatchIndex([]byte(strings.ToLower(l)))
				if !vrEq(b, w) {
					fmt.Printf("REPRODUCED: ASCII pattern %q on %q with ignore-case gives %v, the case-sensitive result on the lower-cased pair is %v\n", p, l, b, w)
					t.Fail()
					return
				}
			}
		}
	}
}
