package readahead

// Replay driver for both line scanners (property C04). The oracle is the property text:
// split the delivered byte stream at '\n', drop one trailing '\r' from terminated lines, a
// non-empty unterminated tail is a line; slices handed out keep their contents; a non-EOF
// error is reported exactly once and every byte read before it is delivered.
//
// Bounded neighbourhood search (used to find a concrete failing input for an obligation that
// failed in the proof): all streams of length <= 6 over {a, \r, \n}, every chunking into reads
// of 1..3 bytes incl. 0-byte stalls, data+error in one Read, buffer sizes 1..5 / 2..6.

import (
	"bytes"
	"errors"
	"fmt"
	"io"
	"testing"
)

type vrChunk struct {
	data  []byte
	err   error
	stall bool
}

type vrReader struct {
	chunks []vrChunk
	i      int
	dead   bool
	after  int // reads after an error was returned
}

func (r *vrReader) Read(p []byte) (int, error) {
	if r.dead {
		r.after++
		return 0, io.EOF
	}
	if len(p) == 0 {
		return 0, nil
	}
	for r.i < len(r.chunks) {
		c := &r.chunks[r.i]
		if c.stall {
			r.i++
			return 0, nil
		}
		n := copy(p, c.data)
		// scribble over the rest of p: io.Reader may use all of p as scratch space
		for k := n; k < len(p); k++ {
			p[k] = '#'
		}
		c.data = c.data[n:]
		if len(c.data) == 0 {
			r.i++
			if c.err != nil {
				r.dead = true
				return n, c.err
			}
		}
		return n, nil
	}
	r.dead = true
	return 0, io.EOF
}

func vrOracle(stream []byte) [][]byte {
	var out [][]byte
	for len(stream) > 0 {
		j := bytes.IndexByte(stream, '\n')
		if j < 0 {
			out = append(out, stream)
			break
		}
		line := stream[:j]
		if len(line) > 0 && line[len(line)-1] == '\r' {
			line = line[:len(line)-1]
		}
		out = append(out, line)
		stream = stream[j+1:]
	}
	return out
}

var vrBoom = errors.New("boom")

func vrRun(mk func(io.Reader, int) Scanner, size int, stream []byte, chunking []int, stallAt int, errMode int) string {
	// errMode: 0 EOF separately, 1 EOF with last data, 2 non-EOF error after all data, 3 non-EOF error with last data
	var chunks []vrChunk
	rest := stream
	k := 0
	for len(rest) > 0 {
		n := chunking[k%len(chunking)]
		k++
		if n > len(rest) {
			n = len(rest)
		}
		if k == stallAt {
			chunks = append(chunks, vrChunk{stall: true})
		}
		chunks = append(chunks, vrChunk{data: append([]byte(nil), rest[:n]...)})
		rest = rest[n:]
	}
	wantErrs := 0
	switch errMode {
	case 1:
		if len(chunks) > 0 {
			chunks[len(chunks)-1].err = io.EOF
		}
	case 2:
		chunks = append(chunks, vrChunk{data: []byte{}, err: vrBoom})
		// an empty data chunk: deliver error alone
		wantErrs = 1
	case 3:
		if len(chunks) > 0 {
			chunks[len(chunks)-1].err = vrBoom
			wantErrs = 1
		}
	}
	if errMode == 2 {
		// make the error chunk behave: Read returns 0, boom
		chunks[len(chunks)-1] = vrChunk{data: nil, err: vrBoom}
	}
	rd := &vrReader{chunks: chunks}
	if errMode == 2 {
		// special handling: last chunk has no data; emulate by wrapping
		rd = &vrReader{chunks: chunks[:len(chunks)-1]}
	}
	var reader io.Reader = rd
	if errMode == 2 {
		reader = &vrErrAfter{r: rd}
	}
	sc := mk(reader, size)
	errs := 0
	sc.OnError(func(error) { errs++ })
	want := vrOracle(stream)
	var held [][]byte
	var copies [][]byte
	for guard := 0; ; guard++ {
		if guard > 4*len(stream)+20 {
			return "scanner does not terminate"
		}
		if !sc.Scan() {
			break
		}
		b := sc.Bytes()
		held = append(held, b)
		copies = append(copies, append([]byte(nil), b...))
	}
	if len(held) != len(want) {
		return fmt.Sprintf("got %d lines %q, want %d lines %q", len(held), copies, len(want), want)
	}
	for i := range want {
		if !bytes.Equal(copies[i], want[i]) {
			return fmt.Sprintf("line %d is %q, want %q (all: %q)", i, copies[i], want[i], copies)
		}
		if !bytes.Equal(held[i], want[i]) {
			return fmt.Sprintf("line %d was %q when returned but the held slice now reads %q", i, want[i], held[i])
		}
	}
	if errs != wantErrs {
		return fmt.Sprintf("error callback ran %d times, want %d", errs, wantErrs)
	}
	if sc.Scan() {
		return "Scan returned true after the end of the stream"
	}
	if rd.after > 0 {
		return "reader was read again after it returned an error"
	}
	return ""
}

type vrErrAfter struct {
	r    *vrReader
	done bool
}

func (e *vrErrAfter) Read(p []byte) (int, error) {
	if e.done {
		e.r.after++
		return 0, io.EOF
	}
	if e.r.i >= len(e.r.chunks) {
		e.done = true
		return 0, vrBoom
	}
	n, _ := e.r.Read(p)
	return n, nil
}

func TestVerifReplayScanners(t *testing.T) {
	makers := []struct {
		name string
		mk   func(io.Reader, int) Scanner
		lo   int
	}{
		{"ImmediateReadAhead", func(r io.Reader, n int) Scanner { return NewImmediate(r, n) }, 1},
		{"BufferedReadAhead", func(r io.Reader, n int) Scanner { return NewBuffered(r, n) }, 2},
	}
	alphabet := []byte{'a', '\r', '\n'}
	var streams [][]byte
	var gen func(n int, cur []byte)
	gen = func(n int, cur []byte) {
		streams = append(streams, append([]byte(nil), cur...))
		if n == 0 {
			return
		}
		for _, c := range alphabet {
			gen(n-1, append(cur, c))
		}
	}
	gen(6, nil)
	chunkings := [][]int{{1}, {2}, {3}, {1, 2}, {2, 1}, {3, 1}, {1, 3}, {6}}
	for _, m := range makers {
		for _, s := range streams {
			for _, ch := range chunkings {
				for size := m.lo; size < m.lo+5; size++ {
					for errMode := 0; errMode < 4; errMode++ {
						for _, stall := range []int{0, 1, 2} {
							if msg := vrRun(m.mk, size, s, ch, stall, errMode); msg != "" {
								fmt.Printf("REPRODUCED: %s bufsize=%d stream=%q chunking=%v stall-before-read=%d errmode=%d: %s\n", m.name, size, s, ch, stall, errMode, msg)
								t.Fail()
								return
							}
						}
					}
				}
			}
		}
	}
}

func TestVerifReplayDropCR(t *testing.T) {
	for _, s := range []string{"", "a", "\r", "a\r", "a\r\r", "\r\r", "\ra", "a\rb\r"} {
		in := []byte(s)
		got := dropCR(in)
		want := in
		if len(in) > 0 && in[len(in)-1] == '\r' {
			want = in[:len(in)-1]
		}
		if !bytes.Equal(got, want) {
			fmt.Printf("REPRODUCED: dropCR(%q) = %q, want %q (exactly one trailing CR is removed)\n", in, got, want)
			t.Fail()
			return
		}
	}
}
