package batchers

// Pipeline oracle for properties C01 / C02 / C05 / C06 (replay driver and bounded stand-in): real
// files (plain, gzip, a plain file read with --gunzip, missing names, an empty file, a file without
// trailing newline, CRLF lines) go through OpenFilesToChan with reader concurrency 1..3 and batch
// sizes 1..4; every line must arrive exactly once with its source and 1-based line number, the
// number of read errors must equal the number of inputs that cannot be opened, and the batch channel
// must be closed in the end (10 s watchdog: a leaked reader slot or a missing close is a hang).

import (
	"compress/gzip"
	"fmt"
	"os"
	"path/filepath"
	"sort"
	"strings"
	"testing"
	"time"
)

type plInput struct {
	name    string
	content string // "" with missing=true: the file does not exist
	gz      bool
	missing bool
}

func plLines(content string) []string {
	if content == "" {
		return nil
	}
	ls := strings.Split(content, "\n")
	if ls[len(ls)-1] == "" {
		ls = ls[:len(ls)-1]
	}
	for i, l := range ls {
		if i < len(ls)-1 || strings.HasSuffix(content, "\n") {
			ls[i] = strings.TrimSuffix(l, "\r")
		}
	}
	return ls
}

func plRun(t *testing.T, dir string, inputs []plInput, gunzip bool, conc, batchSize int) (got map[string]int, errs int, closed bool) {
	names := make(chan string, len(inputs))
	for _, in := range inputs {
		names <- filepath.Join(dir, in.name)
	}
	close(names)
	b := OpenFilesToChan(names, gunzip, conc, batchSize, 2)
	got = map[string]int{}
	done := make(chan bool, 1)
	go func() {
		for batch := range b.BatchChan() {
			for i, line := range batch.Batch {
				got[fmt.Sprintf("%s:%d:%s", filepath.Base(batch.Source), batch.BatchStart+uint64(i), string(line))]++
			}
		}
		done <- true
	}()
	select {
	case <-done:
		closed = true
	case <-time.After(10 * time.Second):
	}
	return got, b.ReadErrors(), closed
}

func TestVerifReplayPipeline(t *testing.T) {
	replay := os.Getenv("VERIF_REPLAY_FILE") != ""
	dir := t.TempDir()
	all := []plInput{
		{name: "a.log", content: "a1\na2\na3\n"},
		{name: "b.log", content: "b1\r\nb2\r\nlast-without-newline"},
		{name: "empty.log", content: ""},
		{name: "c.log.gz", content: "c1\nc2\nc3\nc4\nc5\n", gz: true},
		{name: "plain-but-gunzip.log", content: "0123456789abcdefghijklmnopqrstuvwxyz first line of a plain file\nsecond\n"},
		{name: "missing-1", missing: true},
		{name: "missing-2", missing: true},
		{name: "missing-3", missing: true},
		{name: "d.log", content: strings.Repeat("x", 70000) + "\nd2\n"},
	}
	for _, in := range all {
		if in.missing {
			continue
		}
		p := filepath.Join(dir, in.name)
		if in.gz {
			f, _ := os.Create(p)
			zw := gzip.NewWriter(f)
			zw.Write([]byte(in.content))
			zw.Close()
			f.Close()
		} else {
			os.WriteFile(p, []byte(in.content), 0o644)
		}
	}
	fails := 0
	fail := func(format string, a ...interface{}) {
		fails++
		msg := fmt.Sprintf(format, a...)
		if replay {
			fmt.Println("REPRODUCED " + msg)
		}
		if fails <= 6 {
			t.Errorf("pipeline: %s", msg)
		}
	}
	orders := [][]int{{0, 1, 2, 3, 4, 8}, {5, 6, 0}, {5, 6, 7, 0, 1}, {3, 4}, {0, 5, 1, 6, 3, 7, 8}, {2}, {6}}
	n := 0
	for _, order := range orders {
		for _, gunzip := range []bool{false, true} {
			for conc := 1; conc <= 3; conc++ {
				for _, bs := range []int{1, 2, 4} {
					if fails > 1 {
						return
					}
					var inputs []plInput
					for _, i := range order {
						inputs = append(inputs, all[i])
					}
					want := map[string]int{}
					wantErrs := 0
					for _, in := range inputs {
						if in.missing {
							wantErrs++
							continue
						}
						if in.gz && !gunzip {
							continue // raw gzip bytes: not compared line by line
						}
						for k, l := range plLines(in.content) {
							want[fmt.Sprintf("%s:%d:%s", in.name, k+1, l)]++
						}
					}
					got, errs, closed := plRun(t, dir, inputs, gunzip, conc, bs)
					n++
					desc := fmt.Sprintf("inputs %v gunzip=%v readers=%d batch=%d", order, gunzip, conc, bs)
					if !closed {
						fail("%s: the batch channel was not closed within 10s (inputs never finished)", desc)
						continue
					}
					if errs != wantErrs {
						fail("%s: %d read errors reported, %d inputs cannot be opened", desc, errs, wantErrs)
					}
					var keys []string
					for k := range want {
						keys = append(keys, k)
					}
					sort.Strings(keys)
					for _, k := range keys {
						if got[k] != want[k] {
							kk := k
							if len(kk) > 80 {
								kk = kk[:80] + "..."
							}
							fail("%s: line %q delivered %d times, want %d", desc, kk, got[k], want[k])
							break
						}
					}
					for k, c := range got {
						base := k[:strings.Index(k, ":")]
						skip := false
						for _, in := range inputs {
							if in.name == base && in.gz && !gunzip {
								skip = true
							}
						}
						if !skip && want[k] != c {
							kk := k
							if len(kk) > 80 {
								kk = kk[:80] + "..."
							}
							fail("%s: unexpected line %q (x%d)", desc, kk, c)
							break
						}
					}
				}
			}
		}
	}
	t.Logf("pipeline oracle: %d runs", n)
}
