package batchers

// Reader-wrapper oracle (C04, bounded; replay driver for the byte counter in front of the scanner):
// scripted readers deliver a text in chunks of every size, the last chunk alone or together with
// io.EOF / a read error (io.Reader allows n > 0 with an error). Every line that was read must be
// delivered, in order; the reported byte count must equal the bytes the reader handed out.

import (
	"errors"
	"fmt"
	"io"
	"strings"
	"testing"
)

type wrScript struct {
	data    string
	chunk   int
	withErr bool // the final chunk is returned together with the error
	err     error
	pos     int
}

func (r *wrScript) Read(p []byte) (int, error) {
	if r.pos >= len(r.data) {
		return 0, r.err
	}
	n := r.chunk
	if n > len(p) {
		n = len(p)
	}
	if r.pos+n >= len(r.data) {
		n = len(r.data) - r.pos
		copy(p, r.data[r.pos:r.pos+n])
		r.pos += n
		if r.withErr {
			return n, r.err
		}
		return n, nil
	}
	copy(p, r.data[r.pos:r.pos+n])
	r.pos += n
	return n, nil
}

func TestVerifReplayReaderWrapper(t *testing.T) {
	texts := []string{"alpha\nbeta\ngamma\n", "al\nbe\ngam", "x", "\n\nz\n", "one\r\ntwo\r\nthree"}
	for _, text := range texts {
		want := plLines(text)
		for chunk := 1; chunk <= len(text)+1; chunk++ {
			for _, withErr := range []bool{false, true} {
				for _, e := range []error{io.EOF, errors.New("boom")} {
					b := OpenReaderToChan("script", io.NopCloser(&wrScript{data: text, chunk: chunk, withErr: withErr, err: e}), 3, 64)
					var got []string
					for batch := range b.BatchChan() {
						for _, l := range batch.Batch {
							got = append(got, string(l))
						}
					}
					if strings.Join(got, "\x00") != strings.Join(want, "\x00") {
						fmt.Printf("REPRODUCED: text %q read in chunks of %d, last chunk returned together with the error=%v (%v): lines %q delivered, %q were read\n", text, chunk, withErr, e, got, want)
						t.Fail()
						return
					}
					if b.ReadBytes() != uint64(len(text)) {
						fmt.Printf("REPRODUCED: text %q read in chunks of %d (data with error=%v, %v): %d bytes reported, the reader handed out %d\n", text, chunk, withErr, e, b.ReadBytes(), len(text))
						t.Fail()
						return
					}
				}
			}
		}
	}
}
