package batchers

// Replay driver for the lock-discipline obligations of property C05 (run with -race): the
// status accessors are hammered from concurrent goroutines the way the reader goroutines and the
// renderer use them. A race-detector report is the reproduction.

import (
	"fmt"
	"os"
	"os/exec"
	"strings"
	"sync"
	"testing"
)

func TestVerifRaceInner(t *testing.T) {
	if os.Getenv("VERIF_RACE_INNER") == "" {
		t.Skip()
	}
	b := newBatcher(1)
	var wg sync.WaitGroup
	for g := 0; g < 4; g++ {
		wg.Add(1)
		go func(g int) {
			defer wg.Done()
			for i := 0; i < 2000; i++ {
				switch g {
				case 0:
					b.setSourceCount(i)
					b.startFileReading("f")
					b.stopFileReading("f")
				case 1:
					b.incReadBytes(10)
					b.incErrors()
				default:
					_ = b.StatusString()
					_ = b.ReadErrors()
					_ = b.ActiveFileCount()
					_ = b.ReadBytes()
				}
			}
		}(g)
	}
	wg.Wait()
}

// The outer test re-executes the test binary (built with -race by the harness) and looks for a report.
func TestVerifReplayBatcherRace(t *testing.T) {
	cmd := exec.Command(os.Args[0], "-test.run", "^TestVerifRaceInner$", "-test.count", "3")
	cmd.Env = append(os.Environ(), "VERIF_RACE_INNER=1", "GORACE=halt_on_error=0")
	out, _ := cmd.CombinedOutput()
	text := string(out)
	if i := strings.Index(text, "WARNING: DATA RACE"); i >= 0 {
		rep := text[i:]
		if len(rep) > 1500 {
			rep = rep[:1500]
		}
		first := ""
		for _, l := range strings.Split(rep, "\n") {
			if strings.Contains(l, "batchers.(*Batcher).") {
				first += strings.TrimSpace(l) + " ; "
				if strings.Count(first, ";") >= 2 {
					break
				}
			}
		}
		fmt.Printf("REPRODUCED: the race detector reports a data race between concurrent Batcher status accessors: %s\n", first)
		t.Fail()
	}
}
