package batchers

// Time-flush oracle (C01, bounded; replay driver for the stream readers): an interactive stream
// delivers bursts of lines separated by pauses longer than the auto-flush interval while the
// consumer is late (the batch channel is buffered, nothing drains it until the reader is done).
// Every line must arrive exactly once, in order, with its own 1-based line number - a batch that
// was handed over must never be rewritten by later lines.

import (
	"fmt"
	"io"
	"strings"
	"testing"
	"time"
)

func TestVerifReplayTimeFlush(t *testing.T) {
	const flush = 30 * time.Millisecond
	bursts := [][]int{{1, 3}, {2, 1, 2}, {1, 1, 1, 1}, {3}, {1, 4, 1}, {2, 2}}
	for _, pattern := range bursts {
		for _, batchSize := range []int{2, 3, 100} {
			pr, pw := io.Pipe()
			b := newBatcher(64)
			done := make(chan bool)
			go func() {
				b.syncReaderToBatcherWithTimeFlush("pipe", pr, batchSize, flush)
				b.close()
				done <- true
			}()
			var want []string
			n := 0
			for i, k := range pattern {
				var sb strings.Builder
				for j := 0; j < k; j++ {
					n++
					l := fmt.Sprintf("line-%d", n)
					want = append(want, l)
					sb.WriteString(l + "\n")
				}
				pw.Write([]byte(sb.String())) // one write: the lines of a burst are scanned back to back
				if i < len(pattern)-1 {
					time.Sleep(flush + 40*time.Millisecond)
				}
			}
			pw.Close()
			select {
			case <-done:
			case <-time.After(10 * time.Second):
				fmt.Printf("REPRODUCED: bursts %v batch size %d: the reader did not finish within 10s\n", pattern, batchSize)
				t.Fail()
				return
			}
			var got []string
			next := uint64(1)
			for batch := range b.BatchChan() {
				if batch.BatchStart != next {
					fmt.Printf("REPRODUCED: bursts %v batch size %d: a batch starts at line %d, the next undelivered line is %d\n", pattern, batchSize, batch.BatchStart, next)
					t.Fail()
					return
				}
				for _, l := range batch.Batch {
					got = append(got, string(l))
				}
				next += uint64(len(batch.Batch))
			}
			if strings.Join(got, ",") != strings.Join(want, ",") {
				fmt.Printf("REPRODUCED: bursts %v (pauses longer than the auto-flush interval) batch size %d, late consumer: delivered %v, the stream held %v\n", pattern, batchSize, got, want)
				t.Fail()
				return
			}
		}
	}
}
