package minijson

// Replay driver for property C16. Oracle: encoding/json (validity and decoding), never the
// implementation. Bounded search: all strings of length <= 5 over a small alphabet.

import (
	"encoding/json"
	"fmt"
	"testing"
)

func vrStrings(alphabet []string, n int) []string {
	out := []string{""}
	level := []string{""}
	for k := 0; k < n; k++ {
		var next []string
		for _, p := range level {
			for _, a := range alphabet {
				next = append(next, p+a)
			}
		}
		out = append(out, next...)
		level = next
	}
	return out
}

func TestVerifReplayIsNumeric(t *testing.T) {
	for _, s := range vrStrings([]string{"0", "1", "9", ".", "a", "-"}, 5) {
		if isNumeric(s) {
			var v interface{}
			if !json.Valid([]byte(s)) || json.Unmarshal([]byte(s), &v) != nil {
				fmt.Printf("REPRODUCED: isNumeric(%q) is true but %q is not a JSON number; {\"k\": %s} is invalid JSON\n", s, s, s)
				t.Fail()
				return
			}
			if _, ok := v.(float64); !ok {
				fmt.Printf("REPRODUCED: isNumeric(%q) is true but it does not decode as a number\n", s)
				t.Fail()
				return
			}
		}
	}
}

func TestVerifReplayObject(t *testing.T) {
	vals := vrStrings([]string{"a", "\"", "\\", "\n", "\x01", "\x1f", "0", ".", "é", "t"}, 3)
	vals = append(vals, "true", "TRUE", "false", "False", "007", "1.50", " ", "\x7f", "\t\r\b\f")
	// every single character up to U+2100 alone and between letters (all control characters, the
	// quote, the backslash, DEL, C1 controls, line/paragraph separators)
	for r := rune(0); r < 0x2100; r++ {
		vals = append(vals, string(r), "x"+string(r)+"y")
	}
	for _, v := range vals {
		var kb JsonObjectBuilder
		kb.Open()
		kb.WriteString(v, "1")
		kb.Close()
		var km map[string]interface{}
		if err := json.Unmarshal([]byte(kb.String()), &km); err != nil {
			fmt.Printf("REPRODUCED: key %q renders as %q which is not valid JSON: %v\n", v, kb.String(), err)
			t.Fail()
			return
		}
		if _, ok := km[v]; !ok && string([]rune(v)) == v {
			fmt.Printf("REPRODUCED: key %q renders as %q which decodes to other keys %v\n", v, kb.String(), km)
			t.Fail()
			return
		}
		var jb JsonObjectBuilder
		jb.Open()
		jb.WriteInferred("k", v)
		jb.WriteString("s", v)
		jb.Close()
		out := jb.String()
		var m map[string]interface{}
		if err := json.Unmarshal([]byte(out), &m); err != nil {
			fmt.Printf("REPRODUCED: value %q renders as %q which is not valid JSON: %v\n", v, out, err)
			t.Fail()
			return
		}
		if got, ok := m["s"].(string); !ok || got != v {
			// invalid UTF-8 is replaced by the decoder; skip those
			if json.Valid([]byte("\""+v+"\"")) || got != v {
				if string([]rune(v)) == v {
					fmt.Printf("REPRODUCED: string member %q decodes to %q\n", v, m["s"])
					t.Fail()
					return
				}
			}
		}
		switch k := m["k"].(type) {
		case string:
			if k != v && string([]rune(v)) == v {
				fmt.Printf("REPRODUCED: inferred member %q decodes to string %q\n", v, k)
				t.Fail()
				return
			}
		case float64:
			var f float64
			if _, err := fmt.Sscanf(v, "%g", &f); err != nil || f != k {
				fmt.Printf("REPRODUCED: inferred member %q decodes to number %v of different value\n", v, k)
				t.Fail()
				return
			}
		case bool:
		default:
			fmt.Printf("REPRODUCED: inferred member %q decodes to %T\n", v, m["k"])
			t.Fail()
			return
		}
	}
}
