package funcfile

// Equivalence oracle for property C10 (bounded stand-in and replay driver).
//  (1) optimised vs unoptimised: every template of a generated family (constant, dynamic and
//      mixed arguments, constant sub-expressions that evaluate to "", adjacent literals) gives the
//      same string from NewStdKeyBuilderEx(true) and NewStdKeyBuilderEx(false) on several contexts,
//      including the all-empty context the optimiser probes with;
//  (2) a function loaded from a funcs file (comments, blank lines, continuation lines, later
//      definitions calling earlier ones) equals its body with {i} replaced by the call's arguments,
//      named keys resolved in the caller's match, missing arguments empty; each call is evaluated
//      three times on one compiled expression (pooled contexts) and from 4 goroutines.

import (
	"fmt"
	"os"
	"strings"
	"sync"
	"testing"

	"rare/pkg/expressions"
	"rare/pkg/expressions/stdlib"
)

type eqCtx struct {
	m    []string
	keys map[string]string
}

func (c *eqCtx) GetMatch(i int) string {
	if i >= 0 && i < len(c.m) {
		return c.m[i]
	}
	return ""
}
func (c *eqCtx) GetKey(k string) string { return c.keys[k] }

var eqContexts = []*eqCtx{
	{m: nil, keys: map[string]string{}},
	{m: []string{"ab", "1", "cd"}, keys: map[string]string{"src": "f", "k": "KEY"}},
	{m: []string{"", "", ""}, keys: map[string]string{"src": ""}},
	{m: []string{"5", "-3", "x y"}, keys: map[string]string{"src": "s2", "k": ""}},
	{m: []string{"123", "cd", "7", "zz"}, keys: map[string]string{"src": "f", "k": "KEY"}},
}

func eqAtoms() []string {
	return []string{"lit", "{0}", "{1}", "{src}", "{if {eq a b} x}", "{if {eq a a} Y}", "{sumi 1 2}", "{upper {0}}", "{coalesce \"\" \"\"}",
		"{substr abcdef 1 2}", "{bucket {1} 2}", "{len {2}}", "{if {0} T F}", "{prefix {0} a}", "{@join {@split \"a b\"} -}", "", " ", "{$ a {0}}", "{format %s-%s {0} c}",
		// constant arguments that still carry escapes at the argument's own level (template level,
		// argument splitter, argument): folding them at compile time must consume the same levels
		"{upper \"a\\\\\\\\tb\"}", "{len \"\\\\\\\\\\\\\\\\\"}", "{coalesce {9} \"\\\\\\\\n\"}", "{upper a\\\\tb}"}
}

func TestVerifReplayEquivalence(t *testing.T) {
	replay := os.Getenv("VERIF_REPLAY_FILE") != ""
	fails := 0
	fail := func(format string, a ...interface{}) {
		fails++
		msg := fmt.Sprintf(format, a...)
		if replay {
			fmt.Println("REPRODUCED " + msg)
		}
		if fails <= 8 {
			t.Errorf("C10: %s", msg)
		}
	}
	n := 0
	// ---- (1) optimisation ----
	atoms := eqAtoms()
	var templates []string
	for _, a := range atoms {
		templates = append(templates, a)
		for _, b := range atoms {
			templates = append(templates, a+b, a+";"+b)
			for _, c := range []string{"{0}", "lit", "{if {eq a b} x}", "{sumi 1 2}"} {
				templates = append(templates, a+b+c, "id="+a+b+c+";")
			}
		}
	}
	for _, tpl := range templates {
		ko, _ := stdlib.NewStdKeyBuilderEx(true).Compile(tpl)
		ku, _ := stdlib.NewStdKeyBuilderEx(false).Compile(tpl)
		if ko == nil || ku == nil {
			continue
		}
		for _, ctx := range eqContexts {
			n++
			if a, b := ko.BuildKey(ctx), ku.BuildKey(ctx); a != b {
				fail("template %q on %q: optimised %q, unoptimised %q", tpl, ctx.m, a, b)
			}
		}
	}
	// values defined to vary must not be frozen: {time live} keeps a stage that looks at the context
	for _, tpl := range []string{"{time live}", "{time delta}", "x{time live}y"} {
		ko, _ := stdlib.NewStdKeyBuilderEx(true).Compile(tpl)
		if _, static := expressions.EvalStaticStage(func(c expressions.KeyBuilderContext) string { return ko.BuildKey(c) }); static {
			fail("%s was frozen by the optimiser", tpl)
		}
	}
	// ---- (2) funcs file ---- ({name} without arguments is a key lookup, not a call: calls have 1..3 arguments)
	file := "# helpers\n\nwrap <{0}|{src}>\n" +
		"   # indented comment\n" +
		"pair {wrap {0}} {wrap {1}{0}} \\\n   {1}\n" +
		"twice {0}{0} # trailing comment\n" +
		"back a\\\\\\\nb{0}\n" +
		"nest {pair {twice {0}} {k}}\n" +
		"konst fixed-{sumi 1 2}\n"
	inline := map[string]func(args []string) string{
		"wrap": func(a []string) string { return "<" + a[0] + "|{src}>" },
		"pair": func(a []string) string {
			return "<" + a[0] + "|{src}> <" + a[1] + a[0] + "|{src}> " + a[1]
		},
		"twice": func(a []string) string { return a[0] + a[0] },
		"back":  func(a []string) string { return "a\\\\b" + a[0] },
		"nest": func(a []string) string {
			x, y := a[0]+a[0], "{k}"
			return "<" + x + "|{src}> <" + y + x + "|{src}> " + y
		},
		"konst": func(a []string) string { return "fixed-{sumi 1 2}" },
	}
	argPool := [][]string{{"{2}"}, {"{2}", "{1}"}, {"q"}, {"{0}", "lit", "{1}"}, {"{upper {0}}", "{src}"}}
	for _, optimise := range []bool{true, false} {
		kb := stdlib.NewStdKeyBuilderEx(optimise)
		funcs, err := LoadDefinitions(kb, strings.NewReader(file), "oracle")
		if err != nil {
			fail("funcs file did not load: %v", err)
			break
		}
		kb.Funcs(funcs)
		for name, body := range inline {
			for _, args := range argPool {
				call := "{" + name
				padded := make([]string, 3)
				for i := range padded {
					if i < len(args) {
						padded[i] = args[i]
						call += " " + args[i]
					}
				}
				call += "}"
				want := body(padded)
				kc, _ := kb.Compile(call)
				kw, _ := stdlib.NewStdKeyBuilderEx(optimise).Compile(want)
				if kc == nil || kw == nil {
					fail("%s or its inlined body %q does not compile", call, want)
					continue
				}
				for _, ctx := range eqContexts {
					n++
					w := kw.BuildKey(ctx)
					for rep := 0; rep < 3; rep++ {
						if g := kc.BuildKey(ctx); g != w {
							fail("%s (optimise=%v) on %q = %q, inlined body %q = %q", call, optimise, ctx.m, g, want, w)
							break
						}
					}
					var wg sync.WaitGroup
					bad := make(chan string, 4)
					for g := 0; g < 4; g++ {
						wg.Add(1)
						go func() {
							defer wg.Done()
							for rep := 0; rep < 20; rep++ {
								if got := kc.BuildKey(ctx); got != w {
									bad <- got
									return
								}
							}
						}()
					}
					wg.Wait()
					select {
					case g := <-bad:
						fail("%s evaluated concurrently on %q = %q, want %q", call, ctx.m, g, w)
					default:
					}
				}
			}
		}
	}
	t.Logf("equivalence oracle: %d comparisons", n)
}
