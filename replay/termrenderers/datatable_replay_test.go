package termrenderers

// Data-table oracle (C14, bounded; replay driver for DataTable): the displayed numbers are the
// aggregated numbers under the chosen formatter - every cell, row total, column total and the
// grand total equals formatter(value, min, max) with min/max the extent of all cells.

import (
	"fmt"
	"strings"
	"testing"

	"rare/pkg/aggregation"
	"rare/pkg/aggregation/sorting"
	"rare/pkg/color"
	"rare/pkg/multiterm"
)

func TestVerifReplayDataTable(t *testing.T) {
	color.Enabled = false
	type sample struct {
		col, row string
		v        int64
	}
	tables := [][]sample{
		{{"a", "r1", 5}, {"b", "r1", 20}, {"a", "r2", -3}, {"b", "r2", 40}},
		{{"a", "r1", 7}},
		{{"a", "r1", 1}, {"b", "r2", 2}, {"c", "r3", 3}, {"a", "r3", 100}},
	}
	for ti, samples := range tables {
		for _, custom := range []bool{false, true} {
			for _, totals := range []bool{false, true} {
				agg := aggregation.NewTable("\x00")
				for _, s := range samples {
					agg.SampleItem(s.col, s.row, s.v)
				}
				lo, hi := agg.ComputeMinMax()
				vt := multiterm.NewVirtualTerm()
				dt := NewDataTable(vt, 10, 10)
				dt.ShowRowTotals, dt.ShowColTotals = totals, totals
				format := func(v, min, max int64) string { return fmt.Sprintf("%d", v) }
				if custom {
					format = func(v, min, max int64) string { return fmt.Sprintf("%d[%d..%d]", v, min, max) }
					dt.SetFormatter(format)
				}
				dt.WriteTable(agg, sorting.NVNameSorter, sorting.NVNameSorter)
				cols := agg.OrderedColumns(sorting.NVNameSorter)
				rows := agg.OrderedRows(sorting.NVNameSorter)
				want := func(v int64) string {
					if custom {
						return format(v, lo, hi)
					}
					return fmt.Sprintf("%d", v)
				}
				for ri, row := range rows {
					fields := strings.Fields(vt.Get(ri + 1))
					if len(fields) < 1+len(cols) || fields[0] != row.Name() {
						fmt.Printf("REPRODUCED: table %d custom=%v totals=%v: line %d is %q, want row %q with %d cells\n", ti, custom, totals, ri+1, vt.Get(ri+1), row.Name(), len(cols))
						t.Fail()
						return
					}
					for ci, c := range cols {
						if custom && fields[1+ci] != want(row.Value(c)) {
							fmt.Printf("REPRODUCED: table %d with a formatter that shows min/max: cell (%s,%s) reads %q, formatter(value, min, max) over the table's extent [%d..%d] gives %q\n", ti, row.Name(), c, fields[1+ci], lo, hi, want(row.Value(c)))
							t.Fail()
							return
						}
					}
					if totals && custom && fields[len(fields)-1] != want(row.Sum()) {
						fmt.Printf("REPRODUCED: table %d: row total of %s reads %q, want %q\n", ti, row.Name(), fields[len(fields)-1], want(row.Sum()))
						t.Fail()
						return
					}
				}
				if totals && custom {
					fields := strings.Fields(vt.Get(len(rows) + 1))
					for ci, c := range cols {
						if len(fields) < 2+len(cols) || fields[1+ci] != want(agg.ColTotal(c)) {
							fmt.Printf("REPRODUCED: table %d: column total line %q, column %s should read %q\n", ti, vt.Get(len(rows)+1), c, want(agg.ColTotal(c)))
							t.Fail()
							return
						}
					}
					if fields[len(fields)-1] != want(agg.Sum()) {
						fmt.Printf("REPRODUCED: table %d: grand total reads %q, want %q\n", ti, fields[len(fields)-1], want(agg.Sum()))
						t.Fail()
						return
					}
				}
			}
		}
	}
}
