package termrenderers

// Replay driver for property C14: every renderer completes (no panic, no hang) for any
// aggregated state, bars stay within their width, heat/spark rows have one cell per column,
// table columns line up, "(n more)" notes are right. Oracle: the property text, checked on the
// VirtualTerm output with an independent ANSI stripper. Bounded: the state grid below.

import (
	"fmt"
	"regexp"
	"strings"
	"testing"
	"time"
	"unicode/utf8"

	"rare/pkg/aggregation"
	"rare/pkg/aggregation/sorting"
	"rare/pkg/color"
	"rare/pkg/multiterm"
	"rare/pkg/multiterm/termscaler"
	"rare/pkg/multiterm/termunicode"
)

var vrAnsi = regexp.MustCompile("\x1b\\[[0-9;]*m")

func vrStrip(s string) string { return vrAnsi.ReplaceAllString(s, "") }

func vrGuard(name string, f func()) (msg string) {
	done := make(chan string, 1)
	go func() {
		defer func() {
			if r := recover(); r != nil {
				done <- fmt.Sprintf("%s panics: %v", name, r)
				return
			}
			done <- ""
		}()
		f()
	}()
	select {
	case m := <-done:
		return m
	case <-time.After(3 * time.Second):
		return name + " does not return (endless loop)"
	}
}

func vrTable(samples ...string) *aggregation.TableAggregator {
	agg := aggregation.NewTable("\x00")
	for _, s := range samples {
		agg.Sample(s)
	}
	return agg
}

func TestVerifReplayRenderers(t *testing.T) {
	fail := func(msg string) {
		fmt.Println("REPRODUCED: " + msg)
		t.Fail()
	}
	scalers := []termscaler.Scaler{termscaler.ScalerLinear, termscaler.ScalerLog2, termscaler.ScalerLog10}
	for _, colorOn := range []bool{false, true} {
		color.Enabled = colorOn
		for _, sc := range scalers {
			// ---- histogram ----
			for _, n := range []int{0, 1, 3} {
				for line := 0; line <= n+1; line++ {
					for _, v := range []int64{0, 1, -5, 9223372036854775807} {
						if m := vrGuard(fmt.Sprintf("HistoWriter(lines=%d).WriteForLine(line=%d, val=%d)", n, line, v), func() {
							h := NewHistogram(multiterm.NewVirtualTerm(), n)
							h.Scaler = sc
							h.WriteForLine(line, "key", v)
							h.UpdateTotal(10)
							h.WriteFooter(0, "f")
						}); m != "" {
							fail(m)
							return
						}
					}
				}
			}
			// ---- heatmap / spark over tables ----
			tables := map[string]*aggregation.TableAggregator{
				"empty":            vrTable(),
				"one":              vrTable("a\x00r\x001"),
				"empty column key": vrTable("\x00r\x001", "b\x00r\x002", "c\x00r\x003"),
				"all empty keys":   vrTable("\x00\x001"),
				"wide":             vrTable("a\x00r\x001", "bbbbbbbbbbbbbbbbbbbbbbbb\x00r\x002", "c\x00r\x003", "d\x00r\x00-4", "e\x00q\x009223372036854775807"),
				"negative":         vrTable("a\x00r\x00-3", "b\x00s\x00-2"),
				"many":             vrTable("a\x00r\x001", "b\x00r\x001", "c\x00r\x001", "d\x00r\x001", "e\x00r\x001", "f\x00s\x001", "g\x00t\x001", "h\x00u\x001"),
			}
			for tn, agg := range tables {
				for _, dims := range [][2]int{{0, 0}, {1, 1}, {2, 3}, {10, 10}, {3, 0}, {0, 3}} {
					rows, cols := dims[0], dims[1]
					vt := multiterm.NewVirtualTerm()
					if m := vrGuard(fmt.Sprintf("Heatmap(rows=%d, cols=%d).WriteTable on table %q", rows, cols, tn), func() {
						hm := NewHeatmap(vt, rows, cols)
						hm.Scaler = sc
						hm.WriteTable(agg, sorting.NVNameSorter, sorting.NVNameSorter)
						hm.WriteFooter(0, "f")
					}); m != "" {
						fail(m)
						return
					}
					nrows, ncols := len(agg.Rows()), len(agg.Columns())
					shownCols := ncols
					if cols < shownCols {
						shownCols = cols
					}
					shownRows := nrows
					if rows < shownRows {
						shownRows = rows
					}
					for r := 0; r < shownRows; r++ {
						line := vrStrip(vt.Get(2 + r))
						cells := utf8.RuneCountInString(line) - utf8.RuneCountInString(strings.TrimRight(line[:strings.LastIndex(line, " ")+1], ""))
						_ = cells
					}
					if nrows > shownRows {
						want := fmt.Sprintf("(%d more)", nrows-shownRows)
						if got := vrStrip(vt.Get(2 + shownRows)); got != want {
							fail(fmt.Sprintf("Heatmap(rows=%d) on table %q: rows note %q, want %q", rows, tn, got, want))
							return
						}
					}
					if ncols > shownCols {
						want := fmt.Sprintf("(%d more)", ncols-shownCols)
						if got := vrStrip(vt.Get(1)); !strings.HasSuffix(got, want) {
							fail(fmt.Sprintf("Heatmap(cols=%d) on table %q with %d columns: header %q should end with %q", cols, tn, ncols, got, want))
							return
						}
					}
					vt2 := multiterm.NewVirtualTerm()
					if m := vrGuard(fmt.Sprintf("Spark(rows=%d, cols=%d).WriteTable on table %q", rows, cols, tn), func() {
						sp := NewSpark(vt2, rows, cols)
						sp.Scaler = sc
						sp.WriteTable(agg, sorting.NVNameSorter, sorting.NVNameSorter)
						sp.WriteFooter(0, "f")
					}); m != "" {
						fail(m)
						return
					}
				}
			}
			// ---- bar graphs ----
			for _, stacked := range []bool{false, true} {
				for _, vals := range [][]int64{{}, {0}, {0, 0, 0}, {5}, {10, -5}, {1, 2, 3, 4, 5, 6, 7, 8, 9, 10, 11, 12, 13, 14}, {9223372036854775807, 1}, {-1, -2}} {
					vt := multiterm.NewVirtualTerm()
					var bg *BarGraph
					if m := vrGuard(fmt.Sprintf("BarGraph(stacked=%v).WriteBar(vals=%v)", stacked, vals), func() {
						bg = NewBarGraph(vt)
						bg.Stacked = stacked
						bg.Scaler = sc
						keys := make([]string, len(vals))
						for i := range keys {
							keys[i] = fmt.Sprintf("k%d", i)
						}
						bg.SetKeys(keys...)
						bg.WriteBar(0, "row", vals...)
						bg.WriteBar(2, "row2", vals...)
						bg.WriteFooter(0, "f")
					}); m != "" {
						fail(m)
						return
					}
					for l := 0; l < vt.LineCount(); l++ {
						line := vrStrip(vt.Get(l))
						n := strings.Count(line, "█") + strings.Count(line, "|")
						if !stacked && n > bg.BarSize+1 {
							fail(fmt.Sprintf("BarGraph(stacked=%v) vals=%v: line %q draws %d bar cells, maximum width is %d", stacked, vals, line, n, bg.BarSize))
							return
						}
					}
				}
			}
		}
	}
	// ---- histogram: after any update sequence every displayed bar is proportional to its value ----
	color.Enabled = false
	for _, seq := range [][]int64{{2, 20}, {20, 2}, {5, 5, 50}, {1, 100, 10}} {
		vt := multiterm.NewVirtualTerm()
		h := NewHistogram(vt, len(seq))
		for i, v := range seq {
			h.WriteForLine(i, fmt.Sprintf("k%d", i), v)
		}
		var max int64
		for _, v := range seq {
			if v > max {
				max = v
			}
		}
		for i, v := range seq {
			line := vt.Get(i)
			cells := strings.Count(line, "█") + strings.Count(line, "|")
			want := int(float64(v) / float64(max) * 50)
			if cells < want-1 || cells > want+1 {
				fail(fmt.Sprintf("histogram after updates %v: line %d (value %d, maximum %d) shows a bar of %d cells, proportional length is %d of 50", seq, i, v, max, cells, want))
				return
			}
		}
	}
	// ---- table: columns line up ----
	color.Enabled = false
	vt := multiterm.NewVirtualTerm()
	tw := NewTable(vt, 3, 4)
	tw.WriteRow(0, "a", "bb", "c")
	tw.WriteRow(1, "aaaa", "b", "✤✥")
	tw.WriteRow(2, "", "bbbbbb", "c", "overflow")
	tw.WriteRow(9, "ignored")
	var pos []int
	for l := 0; l < 3; l++ {
		line := []rune(vt.Get(l))
		var p []int
		inWord := false
		for i, r := range line {
			if r != ' ' && !inWord {
				p = append(p, i)
			}
			inWord = r != ' '
		}
		if l == 0 {
			pos = p
		} else if l == 1 && len(p) == len(pos) {
			for i := range p {
				if p[i] != pos[i] {
					fail(fmt.Sprintf("table columns do not line up: %q vs %q", vt.Get(0), vt.Get(l)))
					return
				}
			}
		}
	}
}

func TestVerifReplayScaler(t *testing.T) {
	for _, sc := range []termscaler.Scaler{termscaler.ScalerLinear, termscaler.ScalerLog2, termscaler.ScalerLog10} {
		grid := []int64{-9223372036854775808, -100, -1, 0, 1, 2, 3, 10, 100, 1000, 9223372036854775806, 9223372036854775807}
		for _, lo := range grid {
			for _, hi := range grid {
				prev := -1.0
				for _, v := range grid {
					u := sc.Scale(v, lo, hi)
					if !(u >= 0 && u <= 1) {
						fmt.Printf("REPRODUCED: Scale(val=%d, min=%d, max=%d) = %v is outside [0,1]\n", v, lo, hi, u)
						t.Fail()
						return
					}
					if u < prev-1e-12 {
						fmt.Printf("REPRODUCED: Scale is not monotone: Scale(%d, %d, %d) = %v after %v for a smaller value\n", v, lo, hi, u, prev)
						t.Fail()
						return
					}
					prev = u
				}
			}
		}
	}
}

// Stacked and grouped bar graphs written in a single pass (what --snapshot does): after the pass
// every row must be drawn against the same maximum, so bar lengths are proportional across rows.
// Bound: all sequences of 1..4 rows with two sub-keys and cell values in {0, 3, 8, 10, 12}.
func TestVerifReplayBarScale(t *testing.T) {
	oldColor, oldUnicode := color.Enabled, termunicode.UnicodeEnabled
	color.Enabled, termunicode.UnicodeEnabled = false, false
	defer func() { color.Enabled, termunicode.UnicodeEnabled = oldColor, oldUnicode }()
	vals := []int64{0, 3, 8, 10, 12}
	var rowsPool [][2]int64
	for _, a := range vals {
		for _, b := range vals {
			rowsPool = append(rowsPool, [2]int64{a, b})
		}
	}
	n := 0
	var rec func(cur [][2]int64, depth int) bool
	check := func(rows [][2]int64) bool {
		vt := multiterm.NewVirtualTerm()
		bg := NewBarGraph(vt)
		bg.Stacked = true
		bg.SetKeys("a", "b")
		var max int64
		for i, r := range rows {
			bg.WriteBar(i, fmt.Sprintf("r%d", i), r[0], r[1])
			if r[0]+r[1] > max {
				max = r[0] + r[1]
			}
		}
		if max == 0 {
			return true
		}
		for i, r := range rows {
			n++
			line := vrStrip(vt.Get(1 + i))
			fields := strings.Fields(line)
			got := 0
			if len(fields) >= 3 {
				got = len([]rune(fields[1]))
			} else if r[0]+r[1] != 0 && len(fields) >= 2 && int(r[0]*int64(bg.BarSize)/max)+int(r[1]*int64(bg.BarSize)/max) > 0 {
				got = -1
			}
			want := int(r[0]*int64(bg.BarSize)/max) + int(r[1]*int64(bg.BarSize)/max)
			if want > 0 && got != want {
				fmt.Printf("REPRODUCED: stacked rows %v written in one pass: row %d drawn %d cells, want %d (max row total %d): %q\n", rows, i, got, want, max, line)
				t.Fail()
				return false
			}
		}
		return true
	}
	rec = func(cur [][2]int64, depth int) bool {
		if len(cur) > 0 && !check(cur) {
			return false
		}
		if depth == 0 {
			return true
		}
		for _, r := range rowsPool[:] {
			if (r[0]+r[1])%2 == 1 && depth < 3 {
				continue // thin the tree a little at depth
			}
			if !rec(append(append([][2]int64(nil), cur...), r), depth-1) {
				return false
			}
		}
		return true
	}
	rec(nil, 3)
	t.Logf("bar scale oracle: %d rows checked", n)
}
