package aggregation

// Replay driver for property C07. Oracle: a straightforward map-based fold of the sample
// history, compared with every public accessor after each prefix. Bounded: all histories of
// length <= 4 (counter, sub-key counter, table) over a small sample alphabet, all permutations
// for the order-independence clause; numerical aggregator against a two-pass computation.

import (
	"fmt"
	"math"
	"sort"
	"strconv"
	"strings"
	"testing"

	"rare/pkg/aggregation/sorting"
	"rare/pkg/expressions/stdlib"
)

func vrHistories(alphabet []string, n int) [][]string {
	out := [][]string{{}}
	level := [][]string{{}}
	for k := 0; k < n; k++ {
		var next [][]string
		for _, p := range level {
			for _, a := range alphabet {
				next = append(next, append(append([]string(nil), p...), a))
			}
		}
		out = append(out, next...)
		level = next
	}
	return out
}

func vrSplit3(s, d string) (a, b, c string, nb, nc bool) {
	parts := strings.SplitN(s, d, 4)
	a = parts[0]
	if len(parts) > 1 {
		b, nb = parts[1], true
	}
	if len(parts) > 2 {
		c, nc = parts[2], true
	}
	return
}

func TestVerifReplayCounter(t *testing.T) {
	alphabet := []string{"a", "b", "a\x002", "b\x00-1", "a\x00z", "\x003", "a\x00", "a\x001\x00x"}
	for _, h := range vrHistories(alphabet, 4) {
		c := NewCounter()
		want := map[string]int64{}
		var total int64
		var errs uint64
		for _, s := range h {
			c.Sample(s)
			k, v, _, hasV, _ := vrSplit3(s, "\x00")
			if hasV {
				n, err := strconv.ParseInt(v, 10, 64)
				if err != nil {
					errs++
				} else {
					want[k] += n
					total += n
				}
			} else {
				want[k]++
				total++
			}
		}
		got := map[string]int64{}
		for _, it := range c.Items() {
			got[it.Name] = it.Item.Count()
		}
		if fmt.Sprint(got) != fmt.Sprint(want) || c.Total() != total || c.ParseErrors() != errs || c.GroupCount() != len(want) {
			fmt.Printf("REPRODUCED: counter after samples %q holds %v total=%d errors=%d, the fold gives %v total=%d errors=%d\n", h, got, c.Total(), c.ParseErrors(), want, total, errs)
			t.Fail()
			return
		}
	}
}

func TestVerifReplaySubKeyCounter(t *testing.T) {
	alphabet := []string{"a\x00x", "a\x00y", "b\x00x\x002", "b\x00w\x00-3", "a\x00v\x00z", "c", "b\x00\x005"}
	for _, h := range vrHistories(alphabet, 4) {
		c := NewSubKeyCounter()
		type kk struct{ k, s string }
		want := map[kk]int64{}
		rows := map[string]int64{}
		subs := map[string]bool{}
		var errs uint64
		for _, s := range h {
			c.Sample(s)
			k, sk, v, _, hasV := vrSplit3(s, "\x00")
			n := int64(1)
			if hasV {
				var err error
				n, err = strconv.ParseInt(v, 10, 64)
				if err != nil {
					errs++
					continue
				}
			}
			want[kk{k, sk}] += n
			rows[k] += n
			subs[sk] = true
		}
		var subList []string
		for s := range subs {
			subList = append(subList, s)
		}
		sort.Strings(subList)
		if strings.Join(c.SubKeys(), "|") != strings.Join(subList, "|") || c.ParseErrors() != errs {
			fmt.Printf("REPRODUCED: sub-key counter after %q has sub-keys %q errors=%d, the fold gives %q errors=%d\n", h, c.SubKeys(), c.ParseErrors(), subList, errs)
			t.Fail()
			return
		}
		items := c.Items()
		if len(items) != len(rows) {
			fmt.Printf("REPRODUCED: sub-key counter after %q has %d rows, the fold gives %d\n", h, len(items), len(rows))
			t.Fail()
			return
		}
		for _, it := range items {
			if it.Item.Count() != rows[it.Name] || len(it.Item.Items()) != len(subList) {
				fmt.Printf("REPRODUCED: sub-key counter after %q: row %q total %d / %d columns, the fold gives %d / %d\n", h, it.Name, it.Item.Count(), len(it.Item.Items()), rows[it.Name], len(subList))
				t.Fail()
				return
			}
			for i, sk := range subList {
				if it.Item.Items()[i] != want[kk{it.Name, sk}] {
					fmt.Printf("REPRODUCED: sub-key counter after %q: cell (%q,%q) is %d, the fold gives %d\n", h, it.Name, sk, it.Item.Items()[i], want[kk{it.Name, sk}])
					t.Fail()
					return
				}
			}
		}
	}
}

// Alignment with many sub-keys: every order in which 4 and 5 distinct sub-keys (the empty one
// included) can first appear, each followed by a second sample of every sub-key for two rows; the
// sorted sub-key list, every cell and every row total must equal the fold (the index map and the
// value columns have to stay aligned when a new sub-key is inserted before existing ones, with
// and without spare capacity in the sub-key slice).
func TestVerifReplaySubKeyAlignment(t *testing.T) {
	pool := []string{"", "a", "b", "c", "d"}
	var perms [][]string
	var rec func(cur []string, used []bool, n int)
	rec = func(cur []string, used []bool, n int) {
		if len(cur) == n {
			perms = append(perms, append([]string(nil), cur...))
			return
		}
		for i := 0; i < n; i++ {
			if !used[i] {
				used[i] = true
				rec(append(cur, pool[i]), used, n)
				used[i] = false
			}
		}
	}
	rec(nil, make([]bool, 4), 4)
	rec(nil, make([]bool, 5), 5)
	for _, perm := range perms {
		c := NewSubKeyCounter()
		type kk struct{ k, s string }
		want := map[kk]int64{}
		rows := map[string]int64{}
		step := func(k, sk string, n int64) bool {
			c.SampleValue(k, sk, n)
			want[kk{k, sk}] += n
			rows[k] += n
			subs := map[string]bool{}
			for key := range want {
				subs[key.s] = true
			}
			var subList []string
			for s := range subs {
				subList = append(subList, s)
			}
			sort.Strings(subList)
			if strings.Join(c.SubKeys(), "|") != strings.Join(subList, "|") {
				fmt.Printf("REPRODUCED: sub-keys first seen in order %q: after (%q,%q) the counter lists %q, the fold %q\n", perm, k, sk, c.SubKeys(), subList)
				return false
			}
			for _, it := range c.Items() {
				if it.Item.Count() != rows[it.Name] || len(it.Item.Items()) != len(subList) {
					fmt.Printf("REPRODUCED: sub-keys first seen in order %q: row %q total %d / %d columns, the fold gives %d / %d\n", perm, it.Name, it.Item.Count(), len(it.Item.Items()), rows[it.Name], len(subList))
					return false
				}
				for i, sk2 := range subList {
					if it.Item.Items()[i] != want[kk{it.Name, sk2}] {
						fmt.Printf("REPRODUCED: sub-keys first seen in order %q: cell (%q,%q) is %d, the fold gives %d\n", perm, it.Name, sk2, it.Item.Items()[i], want[kk{it.Name, sk2}])
						return false
					}
				}
			}
			return true
		}
		for i, sk := range perm {
			if !step("r1", sk, int64(i+1)) || !step("r2", sk, int64(10*(i+1))) {
				t.Fail()
				return
			}
		}
		for i, sk := range perm {
			if !step("r1", sk, int64(100*(i+1))) || !step("r3", sk, 7) {
				t.Fail()
				return
			}
		}
	}
}

func TestVerifReplayTable(t *testing.T) {
	alphabet := []string{"x r", "y r", "x q 2", "y q -3", "x r z", "x", "z q 0", " r -2"}
	for _, h := range vrHistories(alphabet, 4) {
		tb := NewTable(" ")
		type cc struct{ r, c string }
		want := map[cc]int64{}
		rows, cols := map[string]int64{}, map[string]int64{}
		rowSet, colSet := map[string]bool{}, map[string]bool{}
		var errs uint64
		var sum int64
		for _, s := range h {
			tb.Sample(s)
			c, r, v, _, hasV := vrSplit3(s, " ")
			n := int64(1)
			if hasV {
				var err error
				n, err = strconv.ParseInt(v, 10, 64)
				if err != nil {
					errs++
					continue
				}
			}
			want[cc{r, c}] += n
			rows[r] += n
			cols[c] += n
			rowSet[r], colSet[c] = true, true
			sum += n
		}
		if tb.ParseErrors() != errs || tb.RowCount() != len(rowSet) || tb.ColumnCount() != len(colSet) || tb.Sum() != sum {
			fmt.Printf("REPRODUCED: table after %q: errors=%d rows=%d cols=%d sum=%d, the fold gives %d %d %d %d\n", h, tb.ParseErrors(), tb.RowCount(), tb.ColumnCount(), tb.Sum(), errs, len(rowSet), len(colSet), sum)
			t.Fail()
			return
		}
		min, max := int64(math.MaxInt64), int64(math.MinInt64)
		for _, row := range tb.Rows() {
			if row.Sum() != rows[row.Name()] {
				fmt.Printf("REPRODUCED: table after %q: row %q total %d, the fold gives %d\n", h, row.Name(), row.Sum(), rows[row.Name()])
				t.Fail()
				return
			}
			for c := range colSet {
				v := want[cc{row.Name(), c}]
				if row.Value(c) != v {
					fmt.Printf("REPRODUCED: table after %q: cell (%q,%q) is %d, the fold gives %d\n", h, row.Name(), c, row.Value(c), v)
					t.Fail()
					return
				}
				if v < min {
					min = v
				}
				if v > max {
					max = v
				}
			}
		}
		if len(rowSet) == 0 || len(colSet) == 0 {
			min, max = 0, 0
		}
		for c := range colSet {
			if tb.ColTotal(c) != cols[c] {
				fmt.Printf("REPRODUCED: table after %q: column %q total %d, the fold gives %d\n", h, c, tb.ColTotal(c), cols[c])
				t.Fail()
				return
			}
		}
		if gmin, gmax := tb.ComputeMinMax(); gmin != min || gmax != max {
			fmt.Printf("REPRODUCED: table after %q: min/max over all row-by-column cells (absent = 0) is %d/%d, ComputeMinMax gives %d/%d\n", h, min, max, gmin, gmax)
			t.Fail()
			return
		}
		// trim: remove exactly the selected cells plus rows/columns left empty
		tb.Trim(func(col, row string, val int64) bool { return val < 0 })
		for _, row := range tb.Rows() {
			for c := range colSet {
				v := want[cc{row.Name(), c}]
				if v < 0 {
					v = 0
				}
				if row.Value(c) != v {
					fmt.Printf("REPRODUCED: table after %q and trimming negative cells: cell (%q,%q) is %d, want %d\n", h, row.Name(), c, row.Value(c), v)
					t.Fail()
					return
				}
			}
		}
	}
}

func TestVerifReplayNumerical(t *testing.T) {
	lists := [][]float64{{}, {5}, {15, 10, 5, 10, 12}, {-1, -2, -3}, {1, 1, 1, 2}, {3, 1, 2}, {1e9, 1e9 + 1, 1e9 + 2}, {0.5, -0.5}, {2, 2, 3, 3, 3, 1}}
	for _, l := range lists {
		for _, rev := range []bool{false, true} {
			a := NewNumericalAggregator(&NumericalConfig{KeepValuesForAnalysis: true, Reverse: rev})
			for _, v := range l {
				a.Samplef(v)
			}
			if int(a.Count()) != len(l) {
				fmt.Printf("REPRODUCED: numerical count %d for %v\n", a.Count(), l)
				t.Fail()
				return
			}
			if len(l) == 0 {
				continue
			}
			sum, min, max := 0.0, l[0], l[0]
			for _, v := range l {
				sum += v
				min, max = math.Min(min, v), math.Max(max, v)
			}
			mean := sum / float64(len(l))
			ss := 0.0
			for _, v := range l {
				ss += (v - mean) * (v - mean)
			}
			sd := 0.0
			if len(l) > 1 {
				sd = math.Sqrt(ss / float64(len(l)-1))
			}
			close := func(x, y float64) bool { return math.Abs(x-y) <= 1e-9*math.Max(1, math.Max(math.Abs(x), math.Abs(y))) }
			if !close(a.Mean(), mean) || !close(a.StdDev(), sd) || a.Min() != min || a.Max() != max {
				fmt.Printf("REPRODUCED: numerical aggregator over %v: mean=%v sd=%v min=%v max=%v, the sample list gives mean=%v sd=%v min=%v max=%v\n", l, a.Mean(), a.StdDev(), a.Min(), a.Max(), mean, sd, min, max)
				t.Fail()
				return
			}
			st := a.Analyze()
			sorted := append([]float64(nil), l...)
			sort.Float64s(sorted)
			if rev {
				for i, j := 0, len(sorted)-1; i < j; i, j = i+1, j-1 {
					sorted[i], sorted[j] = sorted[j], sorted[i]
				}
			}
			if st.Median() != sorted[len(sorted)/2] {
				fmt.Printf("REPRODUCED: median of %v is %v, nearest-rank order statistic is %v\n", l, st.Median(), sorted[len(sorted)/2])
				t.Fail()
				return
			}
			for _, p := range []float64{0, 0.5, 0.9, 0.999, 1.0} {
				idx := int(float64(len(sorted)) * p)
				if idx >= len(sorted) {
					idx = len(sorted) - 1
				}
				var got float64
				func() {
					defer func() {
						if r := recover(); r != nil {
							got = math.NaN()
						}
					}()
					got = st.Quantile(p)
				}()
				if got != sorted[idx] {
					fmt.Printf("REPRODUCED: quantile %v of %v is %v (NaN = panic), nearest-rank order statistic is %v\n", p, l, got, sorted[idx])
					t.Fail()
					return
				}
			}
			counts := map[float64]int{}
			best := 0
			for _, v := range l {
				counts[v]++
				if counts[v] > best {
					best = counts[v]
				}
			}
			if counts[st.Mode()] != best {
				fmt.Printf("REPRODUCED: mode of %v is %v which occurs %d times, the most frequent value occurs %d times\n", l, st.Mode(), counts[st.Mode()], best)
				t.Fail()
				return
			}
		}
	}
}

func TestVerifReplayAccumulator(t *testing.T) {
	run := func(groupExpr string, samples ...string) map[GroupKey]string {
		accum := NewAccumulatingGroup(stdlib.NewStdKeyBuilder())
		accum.AddGroupExpr("g", groupExpr)
		accum.AddDataExpr("sum", "{sumi {.} {2}}", "0")
		for _, s := range samples {
			accum.Sample(s)
		}
		ret := map[GroupKey]string{}
		for _, g := range accum.Groups(sorting.ByName) {
			ret[g] = accum.Data(g)[0]
		}
		return ret
	}
	s1, s2, s3 := "200\x002", "200\x003", "400\x002"
	want := fmt.Sprint(map[GroupKey]string{"200": "5", "400": "2"})
	for _, perm := range [][]string{{s1, s2, s3}, {s3, s1, s2}, {s1, s3, s2}, {s2, s3, s1}} {
		for _, ge := range []string{"{1}", "{1}{sum}", "{1}{nosuchkey}"} {
			if got := fmt.Sprint(run(ge, perm...)); got != want {
				fmt.Printf("REPRODUCED: accumulating group with group expression %q over %q holds %v, the straightforward fold gives %v\n", ge, perm, got, want)
				t.Fail()
				return
			}
		}
	}
}
