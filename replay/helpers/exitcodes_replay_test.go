package helpers

// Replay driver (injected with go test -overlay; never written into /repo).
// Oracle = the exit status precedence of property C06, independent of the implementation.

import (
	"fmt"
	"testing"

	"github.com/urfave/cli/v2"
)

type vrB struct{ n int }
type vrE struct{ n uint64 }
type vrA struct{ n uint64 }

func (b vrB) ReadErrors() int      { return b.n }
func (e vrE) MatchedLines() uint64 { return e.n }
func (a vrA) ParseErrors() uint64  { return a.n }

func TestVerifReplayExitCodes(t *testing.T) {
	for _, re := range []int{-1, 0, 1, 7} {
		for _, pe := range []int64{-1, 0, 1, 3} { // -1: no aggregator
			for _, ml := range []uint64{0, 1, 9} {
				var agg AggregationErrors
				if pe >= 0 {
					agg = vrA{uint64(pe)}
				}
				got := DetermineErrorState(vrB{re}, vrE{ml}, agg)
				want := 0
				switch {
				case re > 0:
					want = 2
				case pe > 0:
					want = 2
				case ml == 0:
					want = 1
				}
				code := 0
				if got != nil {
					if ec, ok := got.(cli.ExitCoder); ok {
						code = ec.ExitCode()
					} else {
						code = -1
					}
				}
				if code != want {
					fmt.Printf("REPRODUCED: DetermineErrorState(readErrors=%d, parseErrors=%d (-1 = no aggregator), matched=%d) exit code %d, property C06 demands %d\n", re, pe, ml, code, want)
					t.Fail()
					return
				}
			}
		}
	}
}
