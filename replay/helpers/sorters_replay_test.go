package helpers

// Replay driver / bounded oracle for C13 (sorter construction): sorters built by two BuildSorter
// calls never share state. For every mode and every ordered pair of key sets (A, B): sorting A
// with one sorter must not change how a second sorter of the same mode orders B - the second
// result must equal the order a sorter used for nothing else gives (first use of a sorter is the
// reference; what a single sorter does on its second use is the recorded finding, not this check).

import (
	"fmt"
	"strings"
	"testing"

	"rare/pkg/aggregation/sorting"
)

func vrSortWith(mode string, keys []string) (string, error) {
	s, err := BuildSorter(mode)
	if err != nil {
		return "", err
	}
	items := make([]sorting.NameValuePair, len(keys))
	for i, k := range keys {
		items[i] = sorting.NameValuePair{Name: k, Value: int64(len(k))}
	}
	sorting.Sort(items, s)
	var out []string
	for _, it := range items {
		out = append(out, it.Name)
	}
	return strings.Join(out, ","), nil
}

func TestVerifReplaySorterIndependence(t *testing.T) {
	sets := [][]string{
		{"wed", "mon", "sun", "fri", "tue"},
		{"mar", "jan", "dec", "feb", "apr"},
		{"2021-03-01", "2020-12-31", "2021-01-15"},
		{"12/01/2021", "01/15/2022", "03/20/2021"},
		{"b10", "a2", "a10", "b9", "10", "9"},
		{"Monday", "friday", "SUNDAY"},
	}
	for _, mode := range []string{"text", "numeric", "contextual", "context", "date", "value", "contextual:reverse", "date:desc", "value:asc"} {
		// reference: each key set sorted by a sorter used for nothing else, built first
		ref := make([]string, len(sets))
		for i, b := range sets {
			r, err := vrSortWith(mode, b)
			if err != nil {
				fmt.Printf("REPRODUCED: BuildSorter(%q) fails: %v\n", mode, err)
				t.Fail()
				return
			}
			ref[i] = r
		}
		for i, a := range sets {
			for j, b := range sets {
				if _, err := vrSortWith(mode, a); err != nil {
					t.Fatal(err)
				}
				got, _ := vrSortWith(mode, b)
				if got != ref[j] {
					fmt.Printf("REPRODUCED: sort mode %q: after another sorter of this mode sorted %v, a newly built sorter orders %v as [%s]; a sorter used for nothing else gives [%s] (set %d then %d)\n", mode, a, b, got, ref[j], i, j)
					t.Fail()
					return
				}
			}
		}
	}
}
