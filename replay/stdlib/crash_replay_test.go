package stdlib

// Crash sweep for property C08 (bounded stand-in and replay driver): every helper of the standard
// function table x arities 0..3 x a pool of boundary arguments, each argument supplied once as a
// template constant and once as a match group, compiled and evaluated under recover() with a
// watchdog. A panic or a hang is a failure.
//
// As a replay driver (VERIF_REPLAY_FILE set) it prints REPRODUCED only for a panic whose stack
// contains the function named by the failed obligation.

import (
	"encoding/json"
	"fmt"
	"os"
	"runtime/debug"
	"sort"
	"strings"
	"sync/atomic"
	"testing"
	"time"
)

var c08Pool = []string{"", "0", "1", "-1", "2", "7", "abc", " ", "a b c", "1.5", "-0.0", "1e308", "x\x00y\x00z", "\xff\xfe",
	"9223372036854775807", "-9223372036854775808", "4611686018427387904", "%d%s%!", "{", "}", "\"", "\\"}

// helpers that legitimately produce output proportional to a numeric argument: huge counts are
// memory exhaustion (not modelled), so they only get the small part of the pool in those positions
var c08Generators = map[string]bool{"@range": true, "repeat": true, "bar": true, "@for": true}

var c08TinyPool = []string{"", "0", "-1", "7", "abc", "9223372036854775807", "x\x00y\x00z"}

var c08SmallPool = []string{"", "0", "1", "-1", "2", "7", "abc", " ", "a b c", "1.5", "x\x00y\x00z"}

type c08Fail struct {
	expr  string
	args  []string
	what  string
	stack string
}

func c08Quote(s string) string {
	r := strings.NewReplacer("\\", "\\\\", "\"", "\\\"", "{", "\\{", "}", "\\}")
	return "\"" + r.Replace(s) + "\""
}

var c08Current atomic.Value // expression being evaluated (watchdog)
var c08Started atomic.Int64

func c08Run(expr string, groups []string) (fail *c08Fail) {
	c08Current.Store(fmt.Sprintf("template=%q groups=%q", expr, groups))
	c08Started.Store(time.Now().UnixNano())
	defer c08Started.Store(0)
	defer func() {
		if r := recover(); r != nil {
			fail = &c08Fail{expr, groups, fmt.Sprintf("panic: %v", r), string(debug.Stack())}
		}
	}()
	kb, _ := NewStdKeyBuilderEx(true).Compile(expr)
	if kb != nil {
		kb.BuildKey(&vrCtx{groups})
	}
	kb2, _ := NewStdKeyBuilderEx(false).Compile(expr)
	if kb2 != nil {
		kb2.BuildKey(&vrCtx{groups})
	}
	return nil
}

// one watchdog for the whole sweep: an evaluation that does not return within 10 s is a failure
func c08Watchdog(replay bool) {
	go func() {
		for {
			time.Sleep(500 * time.Millisecond)
			if t0 := c08Started.Load(); t0 != 0 && time.Now().UnixNano()-t0 > int64(10*time.Second) {
				if replay {
					fmt.Printf("REPRODUCED %v: does not return within 10s\n", c08Current.Load())
				} else {
					fmt.Printf("--- FAIL: C08: %v: does not return within 10s\n", c08Current.Load())
				}
				os.Exit(1)
			}
		}
	}()
}

func c08Sweep(names []string, maxArity int, onFail func(*c08Fail) bool) int {
	n := 0
	for _, name := range names {
		if name == "@for" {
			continue // up to 1,000,000 iterations per evaluation: covered by the template list instead
		}
		pool := c08Pool
		if c08Generators[name] {
			pool = c08SmallPool
		}
		for arity := 0; arity <= maxArity; arity++ {
			if arity >= 3 && !c08Generators[name] {
				pool = c08TinyPool
			}
			idx := make([]int, arity)
			for {
				// constants (a huge constant that sizes the output - width, precision, count - is the
				// template author's resource choice, not a crash: constants stay below 2^62)
				var sb strings.Builder
				sb.WriteString("{" + name)
				groups := make([]string, arity)
				hugeConst := false
				for k := 0; k < arity; k++ {
					sb.WriteString(" " + c08Quote(pool[idx[k]]))
					groups[k] = pool[idx[k]]
					if len(pool[idx[k]]) >= 19 && k > 0 {
						hugeConst = true
					}
				}
				sb.WriteString("}")
				if !hugeConst {
					n++
					if f := c08Run(sb.String(), nil); f != nil && onFail(f) {
						return n
					}
				}
				// dynamic (match groups)
				if arity > 0 {
					var sd strings.Builder
					sd.WriteString("{" + name)
					for k := 0; k < arity; k++ {
						sd.WriteString(fmt.Sprintf(" {%d}", k))
					}
					sd.WriteString("}")
					n++
					if f := c08Run(sd.String(), groups); f != nil && onFail(f) {
						return n
					}
					// mixed: first argument dynamic, rest constant (most helpers take constant options)
					if arity > 1 && !hugeConst {
						var sm strings.Builder
						sm.WriteString("{" + name + " {0}")
						for k := 1; k < arity; k++ {
							sm.WriteString(" " + c08Quote(pool[idx[k]]))
						}
						sm.WriteString("}")
						n++
						if f := c08Run(sm.String(), groups); f != nil && onFail(f) {
							return n
						}
					}
				}
				// next tuple
				k := arity - 1
				for k >= 0 {
					idx[k]++
					if idx[k] < len(pool) {
						break
					}
					idx[k] = 0
					k--
				}
				if k < 0 {
					break
				}
			}
		}
	}
	return n
}

func c08Names() []string {
	var names []string
	for n := range StandardFunctions {
		names = append(names, n)
	}
	sort.Strings(names)
	return names
}

// malformed templates and nested sub-expressions (sub-context index, keys inside @for ...)
var c08Templates = []string{`abc\`, `\`, `{`, `}`, `{}`, `{{}`, `{a {b}`, `{"}`, `{a "b}`, `{0} {1`, `{@map {@split "a b"} {-1}}`, `{@map {@split "a b"} {5}}`,
	`{@for 0 {lt {1} 3} {sumi {0} {src}}}`, `{@for {0} {1} {2}}`, `{@reduce {@split "1 2 3"} {sumi {0} {1}} {-1}}`, `{@filter {@split "a b"} {key}}`,
	`{@slice {@split "a b c"} -5}`, `{@slice {@split "a b c"} -5 3}`, `{@select {@split "a b c"} -9}`, `{@range 0 9223372036854775807 4611686018427387904}`,
	`{@range 0 -9223372036854775808 -4611686018427387905}`, `{! 5 % 0}`, `{! -}`, `{! 1 << -1}`, `{substr abc 1 9223372036854775807}`, `{divi 5 0}`, `{modi 5 0}`,
	`{divi -9223372036854775808 -1}`, `{repeat x -1}`, `{hi -9223372036854775808}`, `{bar 5 10 -5}`, `{bar 5 0 10}`, `{bar 5 -1 10}`, `{timeattr 0 quarter}`, `{percent 1 2 5 5}`}

func TestVerifReplayCrashSweep(t *testing.T) {
	target := ""
	if f := os.Getenv("VERIF_REPLAY_FILE"); f != "" {
		if data, err := os.ReadFile(f); err == nil {
			var rec struct {
				Function string `json:"function"`
			}
			if json.Unmarshal(data, &rec) == nil {
				target = rec.Function
				if i := strings.LastIndex(target, "."); i >= 0 {
					target = target[i+1:] // kfSubstr$1
				}
				target = strings.ReplaceAll(target, "$", ".func")
			}
		}
	}
	c08Watchdog(target != "")
	var fails []*c08Fail
	report := func(f *c08Fail) bool {
		if target != "" {
			// only a panic inside the named function reproduces the obligation
			if f.stack != "" && !strings.Contains(f.stack, "stdlib."+target) {
				return false
			}
			fmt.Printf("REPRODUCED template=%q groups=%q: %s\n", f.expr, f.args, f.what)
			fails = append(fails, f)
			return true
		}
		fails = append(fails, f)
		return len(fails) >= 5
	}
	n := 0
	tpls := c08Templates
	if target != "" {
		// inputs of recorded findings: only tried when replaying a failed obligation
		tpls = append([]string{`{repeat x {0}}`, `{repeat xy {2}}`}, tpls...)
	}
	for _, tpl := range tpls {
		n++
		for _, g := range [][]string{nil, {"0", "1", "2"}, {"-1", "", "x"}, {"9223372036854775807", "-9223372036854775808", "4611686018427387904"}} {
			if f := c08Run(tpl, g); f != nil && report(f) {
				break
			}
		}
	}
	if len(fails) == 0 || target == "" {
		n += c08Sweep(c08Names(), 3, report)
	}
	t.Logf("crash sweep: %d template evaluations", n)
	if target != "" {
		return // replay mode: the REPRODUCED line is the result
	}
	for _, f := range fails {
		t.Errorf("C08: template %q with groups %q: %s\n%s", f.expr, f.args, f.what, firstLines(f.stack, 14))
	}
}

func firstLines(s string, n int) string {
	l := strings.Split(s, "\n")
	if len(l) > n {
		l = l[:n]
	}
	return strings.Join(l, "\n")
}
