package stdlib

// Replay driver for the time attribute helpers (C18): first and last second of every month
// 1970..2100 in UTC and two DST zones, oracle computed from package time independently.

import (
	"fmt"
	"sort"
	"strconv"
	"strings"
	"testing"
	"time"
)

func TestVerifReplayTimeAttr(t *testing.T) {
	for _, zone := range []string{"UTC", "America/New_York", "Australia/Lord_Howe"} {
		loc, err := time.LoadLocation(zone)
		if err != nil {
			continue
		}
		for y := 1970; y <= 2100; y++ {
			for m := 1; m <= 12; m++ {
				first := time.Date(y, time.Month(m), 1, 0, 0, 0, 0, loc)
				last := first.AddDate(0, 1, 0).Add(-time.Second)
				for _, ts := range []time.Time{first, last} {
					wantQ := strconv.Itoa((int(ts.In(loc).Month())-1)/3 + 1)
					got, p := vrEval(t, "{timeattr {0} quarter \""+zone+"\"}", strconv.FormatInt(ts.Unix(), 10))
					if p != nil || got != wantQ {
						fmt.Printf("REPRODUCED: {timeattr %d quarter %s} (%s) = %q (panic=%v), want %s (quarter is 1..4 with January-March = 1)\n", ts.Unix(), zone, ts.In(loc).Format(time.RFC3339), got, p, wantQ)
						t.Fail()
						return
					}
					wantW := strconv.Itoa(int(ts.In(loc).Weekday()))
					if got, p := vrEval(t, "{timeattr {0} weekday \""+zone+"\"}", strconv.FormatInt(ts.Unix(), 10)); p != nil || got != wantW {
						fmt.Printf("REPRODUCED: {timeattr %d weekday %s} = %q (panic=%v), want %s\n", ts.Unix(), zone, got, p, wantW)
						t.Fail()
						return
					}
				}
			}
		}
	}
}

// vrInstants: unix seconds dense around month / quarter / year / ISO-week boundaries of sample
// years, around the DST transitions of the zone, and beyond the 32-bit range.
func vrInstants(loc *time.Location) []int64 {
	seen := map[int64]bool{}
	var out []int64
	add := func(u int64) {
		for _, d := range []int64{-1, 0, 1} {
			if !seen[u+d] && u+d >= 0 {
				seen[u+d] = true
				out = append(out, u+d)
			}
		}
	}
	for _, y := range []int{1970, 1971, 1999, 2000, 2004, 2015, 2016, 2020, 2021, 2024, 2026, 2037, 2038, 2039, 2099, 2100} {
		for m := 1; m <= 12; m++ {
			add(time.Date(y, time.Month(m), 1, 0, 0, 0, 0, loc).Unix())
			add(time.Date(y, time.Month(m), 15, 12, 30, 45, 0, loc).Unix())
		}
		for d := 26; d <= 31; d++ { // ISO week-year boundaries
			add(time.Date(y, time.December, d, 0, 0, 0, 0, loc).Unix())
		}
		for d := 1; d <= 6; d++ {
			add(time.Date(y, time.January, d, 0, 0, 0, 0, loc).Unix())
		}
		// DST transitions: the offset changes between two consecutive hours
		t0 := time.Date(y, time.January, 1, 0, 0, 0, 0, time.UTC)
		_, prev := t0.In(loc).Zone()
		for h := 1; h < 366*24; h++ {
			th := t0.Add(time.Duration(h) * time.Hour)
			if _, off := th.In(loc).Zone(); off != prev {
				prev = off
				for s := th.Unix() - 3600; s <= th.Unix(); s += 1800 {
					add(s)
				}
			}
		}
	}
	add(2147483647)
	add(4294967296)
	add(32503680000) // year 3000
	return out
}

// Calendar oracle for timeformat / time / buckettime / timeattr / duration / durationformat (C18,
// bounded): every instant of vrInstants x zones x named formats / buckets, the expected text
// computed with package time directly from the unix second.
func TestVerifReplayTimeCalendar(t *testing.T) {
	fail := func(format string, a ...interface{}) {
		fmt.Printf("REPRODUCED: "+format+"\n", a...)
		t.Fail()
	}
	named := map[string]string{
		"": time.RFC3339, "ANSIC": time.ANSIC, "UNIX": time.UnixDate, "RUBY": time.RubyDate, "RFC822": time.RFC822, "RFC822Z": time.RFC822Z,
		"RFC1123": time.RFC1123, "RFC1123Z": time.RFC1123Z, "RFC3339": time.RFC3339, "RFC3339N": time.RFC3339Nano,
		"NGINX": "_2/Jan/2006:15:04:05 -0700", "MONTH": "01", "MONTHNAME": "January", "MNTH": "Jan", "DAY": "02", "YEAR": "2006",
		"HOUR": "15", "MINUTE": "04", "SECOND": "05", "TIMEZONE": "MST", "NTIMEZONE": "-0700", "NTZ": "-0700", "WEEKDAY": "Monday", "WDAY": "Mon",
	}
	// formats that hold date, time (to the second) and numeric offset: these must round-trip
	roundTrip := map[string]bool{"RFC1123Z": true, "RFC3339": true, "RFC3339N": true, "RUBY": true, "NGINX": true, "": false}
	buckets := map[string]string{"nanos": "2006-01-02 15:04:05.999999999", "seconds": "2006-01-02 15:04:05", "minutes": "2006-01-02 15:04", "hours": "2006-01-02 15",
		"days": "2006-01-02", "months": "2006-01", "years": "2006", "s": "2006-01-02 15:04:05", "min": "2006-01-02 15:04", "hour": "2006-01-02 15", "d": "2006-01-02", "mon": "2006-01", "y": "2006"}
	var fnames, bnames []string
	for k := range named {
		fnames = append(fnames, k)
	}
	for k := range buckets {
		bnames = append(bnames, k)
	}
	sort.Strings(fnames)
	sort.Strings(bnames)
	n := 0
	for _, zone := range []string{"UTC", "America/New_York", "Australia/Lord_Howe", "Asia/Kolkata", "Europe/London"} {
		loc, err := time.LoadLocation(zone)
		if err != nil {
			continue
		}
		for _, u := range vrInstants(loc) {
			us := strconv.FormatInt(u, 10)
			ts := time.Unix(u, 0).In(loc)
			for _, fname := range fnames {
				if fname == "" {
					continue
				}
				n++
				want := ts.Format(named[fname])
				got, p := vrEval(t, "{timeformat {0} "+fname+" \""+zone+"\"}", us)
				if p != nil || got != want {
					fail("{timeformat %d %s %s} = %q (panic=%v), the instant formats as %q", u, fname, zone, got, p, want)
					return
				}
				if roundTrip[fname] {
					back, p := vrEval(t, "{time {0} "+fname+" \""+zone+"\"}", want)
					if p != nil || back != us {
						fail("{time %q %s %s} = %q (panic=%v): timeformat printed this text for unix second %d", want, fname, zone, back, p, u)
						return
					}
				}
			}
			// default format, lower-case format names
			if got, p := vrEval(t, "{timeformat {0}}", us); p != nil || got != time.Unix(u, 0).UTC().Format(time.RFC3339) {
				fail("{timeformat %d} = %q (panic=%v), want %q", u, got, p, time.Unix(u, 0).UTC().Format(time.RFC3339))
				return
			}
			if got, p := vrEval(t, "{timeformat {0} rfc1123z \""+zone+"\"}", us); p != nil || got != ts.Format(time.RFC1123Z) {
				fail("{timeformat %d rfc1123z %s} = %q (panic=%v), want %q", u, zone, got, p, ts.Format(time.RFC1123Z))
				return
			}
			for _, b := range bnames {
				n++
				in := ts.Format(time.RFC3339)
				want := ts.Format(buckets[b])
				if got, p := vrEval(t, "{buckettime {0} "+b+" RFC3339 \""+zone+"\"}", in); p != nil || got != want {
					fail("{buckettime %q %s RFC3339 %s} = %q (panic=%v), the bucket of that instant is %q", in, b, zone, got, p, want)
					return
				}
			}
			y, w := ts.ISOWeek()
			attrs := map[string]string{"weekday": strconv.Itoa(int(ts.Weekday())), "week": strconv.Itoa(w), "yearweek": strconv.Itoa(y) + "-" + strconv.Itoa(w), "quarter": strconv.Itoa((int(ts.Month())-1)/3 + 1)}
			for _, a := range []string{"weekday", "week", "yearweek", "quarter"} {
				n++
				if got, p := vrEval(t, "{timeattr {0} "+a+" \""+zone+"\"}", us); p != nil || got != attrs[a] {
					fail("{timeattr %d %s %s} (%s) = %q (panic=%v), the calendar says %q", u, a, zone, ts.Format(time.RFC3339), got, p, attrs[a])
					return
				}
			}
		}
	}
	// one compiled stage evaluated over the whole sequence of instants (as the pipeline does: an
	// expression is compiled once and applied to every line): the text for an instant must not
	// depend on what the stage was asked before
	for _, zone := range []string{"UTC", "America/New_York", "Australia/Lord_Howe", "Asia/Kolkata", "Asia/Kathmandu"} {
		loc, err := time.LoadLocation(zone)
		if err != nil {
			continue
		}
		type reused struct {
			expr   string
			input  func(ts time.Time) string
			expect func(ts time.Time) string
		}
		var stages []reused
		for _, b := range bnames {
			layout := buckets[b]
			stages = append(stages, reused{"{buckettime {0} " + b + " RFC3339 \"" + zone + "\"}", func(ts time.Time) string { return ts.Format(time.RFC3339) }, func(ts time.Time) string { return ts.Format(layout) }})
		}
		for _, fname := range []string{"RFC3339", "NGINX", "DAY", "HOUR", "WDAY"} {
			layout := named[fname]
			stages = append(stages, reused{"{timeformat {0} " + fname + " \"" + zone + "\"}", func(ts time.Time) string { return strconv.FormatInt(ts.Unix(), 10) }, func(ts time.Time) string { return ts.Format(layout) }})
		}
		for _, a := range []string{"weekday", "week", "yearweek", "quarter"} {
			a := a
			stages = append(stages, reused{"{timeattr {0} " + a + " \"" + zone + "\"}", func(ts time.Time) string { return strconv.FormatInt(ts.Unix(), 10) }, func(ts time.Time) string {
				y, w := ts.ISOWeek()
				switch a {
				case "weekday":
					return strconv.Itoa(int(ts.Weekday()))
				case "week":
					return strconv.Itoa(w)
				case "yearweek":
					return strconv.Itoa(y) + "-" + strconv.Itoa(w)
				}
				return strconv.Itoa((int(ts.Month())-1)/3 + 1)
			}})
		}
		stages = append(stages, reused{"{time {0} RFC3339 \"" + zone + "\"}", func(ts time.Time) string { return ts.Format(time.RFC3339) }, func(ts time.Time) string { return strconv.FormatInt(ts.Unix(), 10) }})
		instants := vrInstants(loc)
		for _, st := range stages {
			kb, cerr := NewStdKeyBuilderEx(false).Compile(st.expr)
			if cerr != nil || kb == nil {
				fail("%s does not compile", st.expr)
				return
			}
			for i, u := range instants {
				// the instant itself, then the same instant as text in another zone's offset
				for _, ts := range []time.Time{time.Unix(u, 0).In(loc), time.Unix(u, 0).In(time.FixedZone("", ((i%27)-13)*1800))} {
					n++
					in, want := st.input(ts), st.expect(time.Unix(u, 0).In(loc))
					if strings.HasPrefix(st.expr, "{buckettime") {
						// a text with a numeric offset is read (package time) in that offset
						want = st.expect(ts)
					}
					got, p := func() (out string, panicked interface{}) {
						defer func() {
							if r := recover(); r != nil {
								panicked = r
							}
						}()
						return kb.BuildKey(&vrCtx{[]string{in}}), nil
					}()
					if p != nil || got != want {
						fail("%s, compiled once, evaluation %d with %q = %q (panic=%v); that instant in that zone is %q", st.expr, i, in, got, p, want)
						return
					}
				}
			}
		}
	}
	// durations: whole seconds both ways
	for _, secs := range []int64{0, 1, 59, 60, 61, 3599, 3600, 3723, 86399, 86400, 90061, 2147483648, 9223372036, -1, -3723} {
		d := (time.Duration(secs) * time.Second).String()
		ss := strconv.FormatInt(secs, 10)
		n++
		if got, p := vrEval(t, "{durationformat {0}}", ss); p != nil || got != d {
			fail("{durationformat %d} = %q (panic=%v), want %q", secs, got, p, d)
			return
		}
		if got, p := vrEval(t, "{duration {0}}", d); p != nil || got != ss {
			fail("{duration %q} = %q (panic=%v): durationformat printed this for %d seconds", d, got, p, secs)
			return
		}
	}
	for _, c := range [][3]string{{"{duration {0}}", "1h2m3s", "3723"}, {"{duration {0}}", "1500ms", "1"}, {"{duration {0}}", "90m", "5400"},
		{"{duration {0}}", "soon", "<PARSE-ERROR>"}, {"{duration {0}}", "", "<PARSE-ERROR>"}, {"{duration {0}}", "15", "<PARSE-ERROR>"},
		{"{durationformat {0}}", "1.5", "<BAD-TYPE>"}, {"{durationformat {0}}", "", "<BAD-TYPE>"}, {"{durationformat {0}}", "1h", "<BAD-TYPE>"},
		{"{durationformat {0}}", "0x10", "<BAD-TYPE>"}, {"{durationformat {0}}", "010", "10s"}, {"{durationformat {0}}", "1_000", "<BAD-TYPE>"}, {"{durationformat {0}}", "0b11", "<BAD-TYPE>"}, {"{durationformat {0}}", " 5", "<BAD-TYPE>"}, {"{durationformat {0}}", "+5", "5s"},
		{"{timeformat {0}}", "0x10", "<BAD-TYPE>"}, {"{timeformat {0}}", "010", "1970-01-01T00:00:10Z"}, {"{timeformat {0}}", "1_0", "<BAD-TYPE>"}, {"{timeattr {0} quarter}", "0x10", "<BAD-TYPE>"}, {"{timeattr {0} weekday}", "010", "4"},
		{"{timeformat {0}}", "yesterday", "<BAD-TYPE>"}, {"{timeformat {0}}", "", "<BAD-TYPE>"}, {"{timeformat {0}}", "12.5", "<BAD-TYPE>"},
		{"{timeattr {0} quarter}", "Q1", "<BAD-TYPE>"}, {"{timeattr {0} week}", "", "<BAD-TYPE>"},
		{"{time {0} RFC3339}", "not a date", "<PARSE-ERROR>"}, {"{time {0} RFC3339}", "", "<PARSE-ERROR>"}, {"{time {0}}", "", "<PARSE-ERROR>"}, {"{time {0} auto}", "not a date", "<PARSE-ERROR>"},
		{"{buckettime {0} day RFC3339}", "not a date", "<PARSE-ERROR>"}, {"{time {0} NGINX}", "2020-01-01T00:00:00Z", "<PARSE-ERROR>"}} {
		n++
		if got, p := vrEval(t, c[0], c[1]); p != nil || got != c[2] {
			fail("%s with %q = %q (panic=%v), want %q", c[0], c[1], got, p, c[2])
			return
		}
	}
	t.Logf("calendar oracle: %d comparisons", n)
}
