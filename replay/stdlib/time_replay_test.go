package stdlib

// Replay driver for the time attribute helpers (C18): first and last second of every month
// 1970..2100 in UTC and two DST zones, oracle computed from package time independently.

import (
	"fmt"
	"strconv"
	"testing"
	"time"
)

func TestVerifReplayTimeAttr(t *testing.T) {
	for _, zone := range []string{"UTC", "America/New_York", "Australia/Lord_Howe"} {
		loc, err := time.LoadLocation(zone)
		if err != nil {
			continue
		}
		for y := 1970; y <= 2100; y++ {
			for m := 1; m <= 12; m++ {
				first := time.Date(y, time.Month(m), 1, 0, 0, 0, 0, loc)
				last := first.AddDate(0, 1, 0).Add(-time.Second)
				for _, ts := range []time.Time{first, last} {
					wantQ := strconv.Itoa((int(ts.In(loc).Month())-1)/3 + 1)
					got, p := vrEval(t, "{timeattr {0} quarter \""+zone+"\"}", strconv.FormatInt(ts.Unix(), 10))
					if p != nil || got != wantQ {
						fmt.Printf("REPRODUCED: {timeattr %d quarter %s} (%s) = %q (panic=%v), want %s (quarter is 1..4 with January-March = 1)\n", ts.Unix(), zone, ts.In(loc).Format(time.RFC3339), got, p, wantQ)
						t.Fail()
						return
					}
					wantW := strconv.Itoa(int(ts.In(loc).Weekday()))
					if got, p := vrEval(t, "{timeattr {0} weekday \""+zone+"\"}", strconv.FormatInt(ts.Unix(), 10)); p != nil || got != wantW {
						fmt.Printf("REPRODUCED: {timeattr %d weekday %s} = %q (panic=%v), want %s\n", ts.Unix(), zone, got, p, wantW)
						t.Fail()
						return
					}
				}
			}
		}
	}
}
