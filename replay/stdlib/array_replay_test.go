package stdlib

// List-semantics oracle for property C17 (bounded stand-in and replay driver): the array helpers
// are compared with a reference implementation over []string on all small lists.
// Bound: lists of 0..4 elements over {"", "a", "bc", "→"}, delimiters of 1..3 bytes (ASCII,
// multi-byte runes), every index/length in -6..6, sub-expressions from a fixed pool, each helper
// evaluated 3 times in a row on one compiled expression (pooled sub-context reuse) and with keys
// resolved against the enclosing match.

import (
	"fmt"
	"os"
	"strconv"
	"strings"
	"testing"
)

type arCtx struct {
	m    []string
	keys map[string]string
}

func (c *arCtx) GetMatch(i int) string {
	if i >= 0 && i < len(c.m) {
		return c.m[i]
	}
	return ""
}
func (c *arCtx) GetKey(k string) string { return c.keys[k] }

const arSep = "\x00"

func arJoin(xs []string) string { return strings.Join(xs, arSep) }

// the list view of a NUL-separated string: "" is the list with one empty element for every helper
// except @len (documented: empty string has length 0)
func arSplit(s string) []string { return strings.Split(s, arSep) }

func arLists() [][]string {
	elems := []string{"", "a", "bc", "→"}
	out := [][]string{{}}
	var rec func(cur []string, n int)
	rec = func(cur []string, n int) {
		if n == 0 {
			out = append(out, append([]string(nil), cur...))
			return
		}
		for _, e := range elems {
			rec(append(cur, e), n-1)
		}
	}
	for n := 1; n <= 4; n++ {
		rec(nil, n)
	}
	return out
}

type arFail struct{ what string }

func arEval(t *testing.T, expr string, ctx *arCtx) (string, bool) {
	kb, err := NewStdKeyBuilderEx(false).Compile(expr)
	if err != nil || kb == nil {
		return fmt.Sprintf("<compile error %v>", err), false
	}
	// three evaluations on the same compiled expression: pooled objects are reused
	r1 := kb.BuildKey(ctx)
	r2 := kb.BuildKey(ctx)
	r3 := kb.BuildKey(ctx)
	if r1 != r2 || r2 != r3 {
		return fmt.Sprintf("unstable: %q %q %q", r1, r2, r3), false
	}
	return r1, true
}

func TestVerifReplayArrays(t *testing.T) {
	replay := os.Getenv("VERIF_REPLAY_FILE") != ""
	fails := 0
	fail := func(format string, a ...interface{}) {
		fails++
		msg := fmt.Sprintf(format, a...)
		if replay {
			fmt.Println("REPRODUCED " + msg)
		}
		if fails <= 8 {
			t.Errorf("C17: %s", msg)
		}
	}
	n := 0
	lists := arLists()
	keys := map[string]string{"k": "KEY", "want": "a"}
	for _, l := range lists {
		if fails > 8 {
			break
		}
		in := arJoin(l)
		ctx := &arCtx{m: []string{in, "x"}, keys: keys}
		view := arSplit(in) // what the helpers see ([""] for the empty string)

		// @len
		n++
		wantLen := "0"
		if in != "" {
			wantLen = strconv.Itoa(len(view))
		}
		if got, _ := arEval(t, "{@len {0}}", ctx); got != wantLen {
			fail("{@len} of %q = %q, want %q", l, got, wantLen)
		}
		// @select / @slice
		for i := -6; i <= 6; i++ {
			n++
			want := ""
			k := i
			if k < 0 {
				k += len(view)
			}
			if k >= 0 && k < len(view) {
				want = view[k]
			}
			if got, _ := arEval(t, fmt.Sprintf("{@select {0} %d}", i), ctx); got != want {
				fail("{@select %q %d} = %q, want %q", l, i, got, want)
			}
			for ln := -1; ln <= 5; ln++ {
				n++
				start := i
				if start < 0 {
					start += len(view)
				}
				var w []string
				for k := 0; k < len(view); k++ {
					if k >= start && (ln < 0 || k < start+ln) {
						w = append(w, view[k])
					}
				}
				expr := fmt.Sprintf("{@slice {0} %d %d}", i, ln)
				if ln < 0 {
					expr = fmt.Sprintf("{@slice {0} %d}", i)
				}
				if got, _ := arEval(t, expr, ctx); got != arJoin(w) {
					fail("%s of %q = %q, want %q", expr, l, got, arJoin(w))
				}
			}
		}
		// @map with {0}, key from the enclosing match, second binding empty
		n++
		var wm []string
		for _, e := range view {
			wm = append(wm, "<"+e+"|KEY|>")
		}
		if got, _ := arEval(t, "{@map {0} \"<{0}|{k}|{1}>\"}", ctx); got != arJoin(wm) {
			fail("{@map} of %q = %q, want %q", l, got, arJoin(wm))
		}
		// @filter: keep elements equal to the key {want}
		n++
		var wf []string
		for _, e := range view {
			if e == "a" {
				wf = append(wf, e)
			}
		}
		if got, _ := arEval(t, "{@filter {0} {eq {0} {want}}}", ctx); got != arJoin(wf) {
			fail("{@filter} of %q = %q, want %q", l, got, arJoin(wf))
		}
		// @filter keeping the empty elements (separator bookkeeping with empty items)
		n++
		var we []string
		for _, e := range view {
			if e == "" || e == "a" {
				we = append(we, e)
			}
		}
		if got, _ := arEval(t, "{@filter {0} {or {eq {0} \"\"} {eq {0} a}}}", ctx); got != arJoin(we) {
			fail("{@filter empty-or-a} of %q = %q, want %q", l, got, arJoin(we))
		}
		// @reduce: fold left, {0} = memo, {1} = element; with and without initial value
		n++
		memo := view[0]
		for _, e := range view[1:] {
			memo = "(" + memo + "+" + e + ")"
		}
		if got, _ := arEval(t, "{@reduce {0} \"({0}+{1})\"}", ctx); got != memo {
			fail("{@reduce} of %q = %q, want %q", l, got, memo)
		}
		n++
		memo = "I"
		for _, e := range view {
			memo = "(" + memo + "+" + e + ")"
		}
		if got, _ := arEval(t, "{@reduce {0} \"({0}+{1})\" I}", ctx); got != memo {
			fail("{@reduce .. I} of %q = %q, want %q", l, got, memo)
		}
		// @in
		n++
		wantIn := ""
		for _, e := range []string{"a", "q"} {
			_ = e
		}
		if got, _ := arEval(t, "{@in {1} {@split \"x y\"}}", ctx); got != "1" {
			fail("{@in x [x y]} = %q, want 1", got)
		}
		_ = wantIn
		// @split / @join with delimiters of several lengths (elements must not contain the delimiter)
		for _, d := range []string{" ", ",", "--", "→", "-→-", ", "} {
			skip := false
			for _, e := range l {
				if strings.Contains(e, d) || (len(d) > 1 && e != "" && strings.Contains(d, e)) {
					skip = true
				}
			}
			if skip || len(l) == 0 {
				continue
			}
			n++
			joined := strings.Join(l, d)
			c2 := &arCtx{m: []string{joined, in}, keys: keys}
			wantSplit := arJoin(strings.Split(joined, d))
			if got, _ := arEval(t, fmt.Sprintf("{@split {0} %q}", d), c2); got != wantSplit {
				fail("{@split %q %q} = %q, want %q", joined, d, got, wantSplit)
			}
			if got, _ := arEval(t, fmt.Sprintf("{@join {1} %q}", d), c2); got != strings.Join(view, d) {
				fail("{@join %q %q} = %q, want %q", l, d, got, strings.Join(view, d))
			}
			if got, _ := arEval(t, fmt.Sprintf("{@join {@split {0} %q} %q}", d, d), c2); got != joined {
				fail("join(split(%q, %q)) = %q", joined, d, got)
			}
		}
	}
	// nested helpers: the outer binding must survive an inner helper that uses the same pool
	rows := arJoin([]string{"a,b", "c,d"})
	for _, c := range []struct{ expr, want string }{
		{`{@join {@map {0} {format %s=%s {0} {@join {@map {@split {0} ,} {upper {0}}} +}}}}`, "a,b=A+B c,d=C+D"},
		{`{@join {@map {0} {format %s=%s {@join {@map {@split {0} ,} {upper {0}}} +} {0}}}}`, "A+B=a,b C+D=c,d"},
		{`{@join {@map {0} {format %s:%s {@reduce {@split {0} ,} "{0}{1}"} {0}}}}`, "ab:a,b cd:c,d"},
		{`{@join {@filter {0} {eq {@select {@split {0} ,} 0} {@select {@split {0} ,} 0}}}}`, "a,b c,d"},
		{`{@join {@map {0} "{@reduce {@split {0} ,} {1}{0}}-{0}"}}`, "ba-a,b dc-c,d"},
	} {
		n++
		if got, _ := arEval(t, c.expr, &arCtx{m: []string{rows}, keys: keys}); got != c.want {
			fail("%s = %q, want %q", c.expr, got, c.want)
		}
	}
	// generators
	for _, c := range []struct{ expr, want string }{
		{"{@range 3}", "0\x001\x002"}, {"{@range 2 5}", "2\x003\x004"}, {"{@range 0 10 4}", "0\x004\x008"}, {"{@range 5 0 -2}", "5\x003\x001"},
		{"{@range 0}", ""}, {"{@range 3 3}", ""}, {"{@range 0 5 0}", "<VALUE>"}, {"{@range 5 0}", "<VALUE>"}, {"{@range 0 5 -1}", "<VALUE>"},
		{"{@range -2 2}", "-2\x00-1\x000\x001"},
		{"{@for 1 {lt {0} 20} {multi {0} 2}}", "1\x002\x004\x008\x0016"}, {"{@for 0 {lt {1} 3} {sumi {0} 5}}", "0\x005\x0010"},
		{"{@for a {lt {1} 2} \"{0}{k}\"}", "a\x00aKEY"},
		// an empty value is an element like any other: ["", "a"], ["", "", "x"], ["b", ""]
		{"{@for \"\" {lt {1} 2} \"{0}a\"}", "\x00a"}, {"{@for \"\" {lt {1} 3} {if {eq {1} 1} x}}", "\x00\x00x"}, {"{@for b {lt {1} 2} \"\"}", "b\x00"},
		{"{@for 7 {lt {1} 0} {0}}", ""}, {"{@for 7 {lt {1} 1} {0}}", "7"},
		{"{$ a b c}", "a\x00b\x00c"}, {"{@ a \"\" c}", "a\x00\x00c"}, {"{$ a}", "a"}, {"{@len {$ a b c}}", "3"},
	} {
		n++
		if got, _ := arEval(t, c.expr, &arCtx{m: []string{"g0"}, keys: keys}); got != c.want {
			fail("%s = %q, want %q", c.expr, got, c.want)
		}
	}
	// {$ ...} / {@ ...}: every argument is an element, empty ones included, wherever they stand
	// (arguments come from groups so that nothing is folded at compile time)
	vals := []string{"", "q", "", "r"}
	for mask := 0; mask < 1<<3; mask++ {
		for k := 1; k <= 3; k++ {
			var parts, want []string
			for j := 0; j < k; j++ {
				idx := 0 // group 0 is empty
				if mask&(1<<j) != 0 {
					idx = 1 + 2*(j%2)
				}
				parts = append(parts, fmt.Sprintf("{%d}", idx))
				want = append(want, vals[idx])
			}
			for _, op := range []string{"$", "@"} {
				n++
				expr := "{" + op + " " + strings.Join(parts, " ") + "}"
				if got, _ := arEval(t, expr, &arCtx{m: vals, keys: keys}); got != strings.Join(want, "\x00") {
					fail("%s with groups %q = %q, want %q (every argument is one element)", expr, vals, got, strings.Join(want, "\x00"))
				}
				if k >= 2 {
					n++
					if got, _ := arEval(t, "{@len "+expr+"}", &arCtx{m: vals, keys: keys}); got != strconv.Itoa(k) {
						fail("{@len %s} with groups %q = %q, want %d", expr, vals, got, k)
					}
				}
			}
		}
	}
	t.Logf("array oracle: %d comparisons", n)
}
