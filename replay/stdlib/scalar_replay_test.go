package stdlib

// Replay driver for the scalar helper closures of property C11 (and the crash clause of C08 for
// the same helpers). Oracle: the documented semantics, computed with math/big, independent of
// the implementation. The search space is the boundary grid below; with VERIF_REPLAY_FILE set,
// the integer values of the failed obligation's model are added to the grid.

import (
	"encoding/json"
	"fmt"
	"math/big"
	"os"
	"regexp"
	"strconv"
	"testing"

	"rare/pkg/expressions"
)

type vrCtx struct{ m []string }

func (c *vrCtx) GetMatch(i int) string {
	if i >= 0 && i < len(c.m) {
		return c.m[i]
	}
	return ""
}
func (c *vrCtx) GetKey(k string) string { return "" }

func vrEval(t *testing.T, expr string, args ...string) (out string, panicked interface{}) {
	defer func() {
		if r := recover(); r != nil {
			panicked = r
		}
	}()
	kb, err := NewStdKeyBuilderEx(false).Compile(expr)
	if err != nil || kb == nil {
		return "<COMPILE-ERROR>", nil
	}
	return kb.BuildKey(&vrCtx{args}), nil
}

var _ expressions.KeyBuilderContext = &vrCtx{}

func vrGrid() []int64 {
	g := []int64{0, 1, -1, 2, -2, 3, -3, 5, -5, 7, 9, 10, -10, 15, -15, 99, 100, -100, 1000, -1000,
		9223372036854775807, -9223372036854775808, 9223372036854775806, -9223372036854775807, 4611686018427387904, -4611686018427387904}
	if f := os.Getenv("VERIF_REPLAY_FILE"); f != "" {
		if data, err := os.ReadFile(f); err == nil {
			var rec struct {
				Model map[string]string `json:"model"`
			}
			if json.Unmarshal(data, &rec) == nil {
				re := regexp.MustCompile(`-?\s*[0-9]+`)
				for _, v := range rec.Model {
					for _, m := range re.FindAllString(v, 4) {
						neg := false
						if len(m) > 0 && m[0] == '-' {
							neg = true
						}
						if n, err := strconv.ParseInt(regexp.MustCompile(`[^0-9]`).ReplaceAllString(m, ""), 10, 64); err == nil {
							if neg {
								n = -n
							}
							g = append(g, n, n+1, n-1)
						}
					}
				}
			}
		}
	}
	return g
}

func TestVerifReplayBucket(t *testing.T) {
	g := vrGrid()
	for _, s := range g {
		if s <= 0 {
			continue
		}
		for _, v := range g {
			// spec: b multiple of s, b <= v < b+s  (when representable)
			bv, bs := big.NewInt(v), big.NewInt(s)
			q := new(big.Int)
			m := new(big.Int)
			q.DivMod(bv, bs, m) // Euclidean == floor for s > 0
			b := new(big.Int).Mul(q, bs)
			if !b.IsInt64() {
				continue
			}
			want := b.String()
			got, p := vrEval(t, "{bucket {0} "+strconv.FormatInt(s, 10)+"}", strconv.FormatInt(v, 10))
			if p != nil || got != want {
				fmt.Printf("REPRODUCED: {bucket %d %d} = %q (panic=%v), want %s (the multiple b of %d with b <= %d < b+%d)\n", v, s, got, p, want, s, v, s)
				t.Fail()
				return
			}
			e := new(big.Int).Add(b, new(big.Int).Sub(bs, big.NewInt(1)))
			if e.IsInt64() {
				wantR := want + " - " + e.String()
				gotR, p := vrEval(t, "{bucketrange {0} "+strconv.FormatInt(s, 10)+"}", strconv.FormatInt(v, 10))
				if p != nil || gotR != wantR {
					fmt.Printf("REPRODUCED: {bucketrange %d %d} = %q (panic=%v), want %q\n", v, s, gotR, p, wantR)
					t.Fail()
					return
				}
			}
		}
	}
	for _, bad := range []string{"", "x", "1.5", " 1", "9223372036854775808"} {
		if got, p := vrEval(t, "{bucket {0} 10}", bad); p != nil || got != "<BAD-TYPE>" {
			fmt.Printf("REPRODUCED: {bucket %q 10} = %q (panic=%v), want <BAD-TYPE>\n", bad, got, p)
			t.Fail()
			return
		}
	}
}

func TestVerifReplayClamp(t *testing.T) {
	g := vrGrid()
	for _, lo := range g {
		for _, hi := range g {
			for _, v := range g {
				arg := strconv.FormatInt(v, 10)
				want := arg
				if v < lo {
					want = "min"
				} else if v > hi {
					want = "max"
				}
				got, p := vrEval(t, fmt.Sprintf("{clamp {0} %d %d}", lo, hi), arg)
				if p != nil || got != want {
					fmt.Printf("REPRODUCED: {clamp %d %d %d} = %q (panic=%v), want %q (v iff min <= v <= max)\n", v, lo, hi, got, p, want)
					t.Fail()
					return
				}
			}
		}
	}
}
