package stdlib

// Scalar helper oracle for property C11 (bounded stand-in and replay driver): the documented
// semantics of the scalar helpers, computed independently (math/big, encoding/csv, a direct
// transcription of the documentation), compared with the real helpers on a boundary grid.
// Each helper is evaluated with constant arguments and with match-group arguments.

import (
	"encoding/csv"
	"fmt"
	"math/big"
	"os"
	"strconv"
	"strings"
	"testing"
)

func scEval(expr string, groups ...string) string {
	out, p := vrEval(nil, expr, groups...)
	if p != nil {
		return fmt.Sprintf("<PANIC %v>", p)
	}
	return out
}

// both forms: constants and match groups
func scBoth(name string, args ...string) []string {
	c := "{" + name
	d := "{" + name
	for i, a := range args {
		c += " " + c08Quote(a)
		d += fmt.Sprintf(" {%d}", i)
	}
	return []string{scEval(c + "}"), scEval(d+"}", args...)}
}

func scTruthy(s string) bool { return strings.TrimSpace(s) != "" }

func scWrap64(x *big.Int) int64 {
	m := new(big.Int).Lsh(big.NewInt(1), 64)
	r := new(big.Int).Mod(x, m)
	if r.Cmp(new(big.Int).Lsh(big.NewInt(1), 63)) >= 0 {
		r.Sub(r, m)
	}
	return r.Int64()
}

func TestVerifReplayScalars(t *testing.T) {
	replay := os.Getenv("VERIF_REPLAY_FILE") != ""
	fails := 0
	fail := func(format string, a ...interface{}) {
		fails++
		msg := fmt.Sprintf(format, a...)
		if replay {
			fmt.Println("REPRODUCED " + msg)
		}
		if fails <= 10 {
			t.Errorf("C11: %s", msg)
		}
	}
	n := 0
	check := func(what string, got []string, want string) {
		for _, g := range got {
			n++
			if g == "<COMPILE-ERROR>" && want == "<BAD-TYPE>" {
				continue // a constant argument of the wrong type is reported when the template is compiled
			}
			if g != want {
				fail("%s = %q, want %q", what, g, want)
				return
			}
		}
	}
	ints := []string{"0", "1", "-1", "7", "-7", "10", "010", "-010", "0100", "12", "100", "-100", "9223372036854775807", "-9223372036854775808", "4611686018427387904"}
	bad := []string{"", "abc", "1.5", "0x10", "1_000", " 1", "1e3"}
	parse := func(s string) (int64, bool) {
		v, err := strconv.ParseInt(s, 10, 64)
		return v, err == nil
	}
	// ---- integer arithmetic: left fold with Go's int64 semantics over plain base-10 integers ----
	ops := map[string]func(a, b *big.Int) (*big.Int, bool){
		"sumi":  func(a, b *big.Int) (*big.Int, bool) { return new(big.Int).Add(a, b), true },
		"subi":  func(a, b *big.Int) (*big.Int, bool) { return new(big.Int).Sub(a, b), true },
		"multi": func(a, b *big.Int) (*big.Int, bool) { return new(big.Int).Mul(a, b), true },
		"divi": func(a, b *big.Int) (*big.Int, bool) {
			if b.Sign() == 0 {
				return nil, false
			}
			return new(big.Int).Quo(a, b), true
		},
		"modi": func(a, b *big.Int) (*big.Int, bool) {
			if b.Sign() == 0 {
				return nil, false
			}
			return new(big.Int).Rem(a, b), true
		},
		"maxi": func(a, b *big.Int) (*big.Int, bool) {
			if a.Cmp(b) > 0 {
				return a, true
			}
			return b, true
		},
		"mini": func(a, b *big.Int) (*big.Int, bool) {
			if a.Cmp(b) < 0 {
				return a, true
			}
			return b, true
		},
	}
	for name, op := range ops {
		for _, a := range append(ints, bad[:3]...) {
			for _, b := range append(ints, bad[1]) {
				for _, c := range []string{"", "3", "-2"} {
					args := []string{a, b}
					if c != "" {
						args = append(args, c)
					}
					want := ""
					acc := big.NewInt(0)
					okAll := true
					for i, s := range args {
						v, ok := parse(s)
						if !ok {
							okAll = false
							break
						}
						if i == 0 {
							acc = big.NewInt(v)
							continue
						}
						r, ok2 := op(acc, big.NewInt(v))
						if !ok2 {
							want = "<VALUE>"
							break
						}
						acc = big.NewInt(scWrap64(r))
					}
					if !okAll {
						want = "<BAD-TYPE>"
					} else if want == "" {
						want = acc.String()
					}
					check(fmt.Sprintf("{%s %v}", name, args), scBoth(name, args...), want)
					if fails > 10 {
						return
					}
				}
			}
		}
	}
	// ---- logic over truthiness ----
	vals := []string{"", " ", "\t", "0", "1", "x", "false"}
	for _, a := range vals {
		want := "1"
		if scTruthy(a) {
			want = ""
		}
		check(fmt.Sprintf("{not %q}", a), scBoth("not", a), want)
		for _, b := range vals {
			and, or := "", ""
			if scTruthy(a) && scTruthy(b) {
				and = "1"
			}
			if scTruthy(a) || scTruthy(b) {
				or = "1"
			}
			check(fmt.Sprintf("{and %q %q}", a, b), scBoth("and", a, b), and)
			check(fmt.Sprintf("{or %q %q}", a, b), scBoth("or", a, b), or)
			w := ""
			if scTruthy(a) {
				w = b
			}
			check(fmt.Sprintf("{if %q %q}", a, b), scBoth("if", a, b), w)
			w2 := "E"
			if scTruthy(a) {
				w2 = b
			}
			check(fmt.Sprintf("{if %q %q E}", a, b), scBoth("if", a, b, "E"), w2)
			w3 := ""
			if !scTruthy(a) {
				w3 = b
			}
			check(fmt.Sprintf("{unless %q %q}", a, b), scBoth("unless", a, b), w3)
			// switch c1 v1 c2 v2 else
			w4 := "E"
			if scTruthy(a) {
				w4 = "A"
			} else if scTruthy(b) {
				w4 = "B"
			}
			check(fmt.Sprintf("{switch %q A %q B E}", a, b), scBoth("switch", a, "A", b, "B", "E"), w4)
			w5 := ""
			if a != "" {
				w5 = a
			} else if b != "" {
				w5 = b
			}
			check(fmt.Sprintf("{coalesce %q %q}", a, b), scBoth("coalesce", a, b), w5)
			eq, neq := "", "1"
			if a == b {
				eq, neq = "1", ""
			}
			check(fmt.Sprintf("{eq %q %q}", a, b), scBoth("eq", a, b), eq)
			check(fmt.Sprintf("{neq %q %q}", a, b), scBoth("neq", a, b), neq)
		}
	}
	// ---- numeric comparisons ----
	nums := []string{"0", "1", "-1", "1.5", "-1.5", "10", "2", "1e3", "abc", ""}
	for _, a := range nums {
		for _, b := range nums {
			fa, ea := strconv.ParseFloat(a, 64)
			fb, eb := strconv.ParseFloat(b, 64)
			for name, f := range map[string]func(x, y float64) bool{"lt": func(x, y float64) bool { return x < y }, "gt": func(x, y float64) bool { return x > y },
				"lte": func(x, y float64) bool { return x <= y }, "gte": func(x, y float64) bool { return x >= y }} {
				if ea != nil || eb != nil {
					// a constant that is not a number is a compile error (literal marker), a dynamic one <BAD-TYPE>
					if g := scEval(fmt.Sprintf("{%s {0} {1}}", name), a, b); g != "<BAD-TYPE>" {
						fail("{%s %q %q} (groups) = %q, want <BAD-TYPE>", name, a, b, g)
					}
					n++
					continue
				}
				want := ""
				if f(fa, fb) {
					want = "1"
				}
				check(fmt.Sprintf("{%s %s %s}", name, a, b), scBoth(name, a, b), want)
			}
		}
	}
	// ---- strings ----
	strs := []string{"", "a", "abc", "hello world", "héllo", "a,b"}
	for _, s := range strs {
		check(fmt.Sprintf("{len %q}", s), scBoth("len", s), strconv.Itoa(len(s)))
		check(fmt.Sprintf("{upper %q}", s), scBoth("upper", s), strings.ToUpper(s))
		check(fmt.Sprintf("{lower %q}", s), scBoth("lower", s), strings.ToLower(s))
		for _, p := range []string{"", "a", "he", "ld", "b", "llo"} {
			w := ""
			if strings.HasPrefix(s, p) {
				w = s
			}
			check(fmt.Sprintf("{prefix %q %q}", s, p), scBoth("prefix", s, p), w)
			w = ""
			if strings.HasSuffix(s, p) {
				w = s
			}
			check(fmt.Sprintf("{suffix %q %q}", s, p), scBoth("suffix", s, p), w)
			w = ""
			if strings.Contains(s, p) {
				w = s
			}
			check(fmt.Sprintf("{like %q %q}", s, p), scBoth("like", s, p), w)
		}
		// substr: left counts from the end when negative, clamped; length clamped (documented)
		for _, left := range []int64{0, 1, 2, -1, -2, -100, 100, 9223372036854775807, -9223372036854775808} {
			for _, ln := range []int64{0, 1, 2, -1, 100, 9223372036854775807} {
				want := ""
				if len(s) > 0 {
					L := big.NewInt(left)
					if left < 0 {
						L.Add(L, big.NewInt(int64(len(s))))
						if L.Sign() < 0 {
							L = big.NewInt(0)
						}
					} else if left > int64(len(s)) {
						L = big.NewInt(int64(len(s)))
					}
					l := ln
					if l < 0 {
						l = 0
					}
					R := new(big.Int).Add(L, big.NewInt(l))
					if R.Cmp(big.NewInt(int64(len(s)))) > 0 {
						R = big.NewInt(int64(len(s)))
					}
					want = s[L.Int64():R.Int64()]
				}
				check(fmt.Sprintf("{substr %q %d %d}", s, left, ln), scBoth("substr", s, strconv.FormatInt(left, 10), strconv.FormatInt(ln, 10)), want)
			}
		}
	}
	// ---- csv: the row parses back to its arguments ----
	fields := []string{"", "a", "a,b", "say \"hi\"", "say \"hi\", bob", "line\nbreak", "cr\rlf", " lead", "x;y"}
	for _, a := range fields {
		for _, b := range fields {
			for _, got := range scBoth("csv", a, b)[1:] { // (as match groups: quotes inside a template constant are template syntax)
				n++
				rec, err := csv.NewReader(strings.NewReader(got + "\n")).Read()
				wa, wb := strings.ReplaceAll(a, "\r\n", "\n"), strings.ReplaceAll(b, "\r\n", "\n")
				if err != nil || len(rec) != 2 || strings.ReplaceAll(rec[0], "\r", "") != strings.ReplaceAll(wa, "\r", "") || strings.ReplaceAll(rec[1], "\r", "") != strings.ReplaceAll(wb, "\r", "") {
					fail("{csv %q %q} = %q parses back to %q (%v)", a, b, got, rec, err)
				}
			}
		}
	}
	// ---- hi: only thousands separators are inserted ----
	for _, s := range []string{"0", "7", "99", "100", "999", "1000", "-1000", "12345", "123456", "1234567", "-1234567", "1000000000", "9223372036854775807", "-9223372036854775807"} {
		for _, got := range scBoth("hi", s) {
			n++
			if strings.ReplaceAll(got, ",", "") != s {
				fail("{hi %s} = %q: removing the separators does not give the number back", s, got)
			}
			digits := strings.TrimPrefix(got, "-")
			groups := strings.Split(digits, ",")
			for i, g := range groups {
				if (i > 0 && len(g) != 3) || (i == 0 && (len(g) < 1 || len(g) > 3)) {
					fail("{hi %s} = %q: group %q has the wrong size", s, got, g)
				}
			}
		}
	}
	// ---- bucket / bucketrange / clamp ----
	for _, v := range []int64{0, 1, -1, 4, 5, 6, -4, -5, -6, -10, 10, 49, -50, -51, 1000000007} {
		for _, size := range []int64{1, 2, 5, 50, 1000} {
			b := new(big.Int).Div(big.NewInt(v), big.NewInt(size)) // floor
			if v < 0 && new(big.Int).Mod(big.NewInt(v), big.NewInt(size)).Sign() != 0 {
				// big.Div is Euclidean: already floor for positive divisor
			}
			b.Mul(b, big.NewInt(size))
			check(fmt.Sprintf("{bucket %d %d}", v, size), scBoth("bucket", strconv.FormatInt(v, 10), strconv.FormatInt(size, 10))[:1], b.String())
			check(fmt.Sprintf("{bucketrange %d %d}", v, size), scBoth("bucketrange", strconv.FormatInt(v, 10), strconv.FormatInt(size, 10))[:1],
				b.String()+" - "+new(big.Int).Add(b, big.NewInt(size-1)).String())
		}
		w := strconv.FormatInt(v, 10)
		if v < -5 {
			w = "min"
		} else if v > 10 {
			w = "max"
		}
		check(fmt.Sprintf("{clamp %d -5 10}", v), scBoth("clamp", strconv.FormatInt(v, 10), "-5", "10")[:1], w)
	}
	// ---- downscale: symmetric in sign, below one step unless the units run out ----
	for _, v := range []int64{1, 999, 1000, 1001, 999999, 1000000, 1000001, 1000000000, 1234567890123} {
		pos := scEval(fmt.Sprintf("{downscale %d 2}", v))
		neg := scEval(fmt.Sprintf("{downscale %d 2}", -v))
		n++
		if neg != "-"+pos {
			fail("{downscale %d 2} = %q but {downscale %d 2} = %q", v, pos, -v, neg)
		}
	}
	t.Logf("scalar oracle: %d comparisons", n)
}
