package sorting

// Replay driver for property C13. Oracle: the property text - every permutation of the same
// keys must sort to the same sequence, the pairwise decisions must be transitive and total on
// distinct keys. Bounded search over a fixed key pool (all 3-subsets, all permutations of 4-subsets).

import (
	"fmt"
	"strings"
	"testing"
)

var vrPool = []string{"1", "1.0", "2", "10", "9a", "1a", "a", "b", "mon", "Tue", "sun", "x", "jan", "dec", "2021-01-02", "2020-12-31", "-5", "0x10", "", "007", "8.5"}

func vrPerms(a []string) [][]string {
	if len(a) <= 1 {
		return [][]string{append([]string(nil), a...)}
	}
	var out [][]string
	for i := range a {
		rest := append(append([]string(nil), a[:i]...), a[i+1:]...)
		for _, p := range vrPerms(rest) {
			out = append(out, append([]string{a[i]}, p...))
		}
	}
	return out
}

func vrCheckSorter(name string, mk func() NameSorter) string {
	// laws on a fresh comparator per question (so state cannot hide)
	for _, a := range vrPool {
		if mk()(a, a) {
			return fmt.Sprintf("%s: %q < %q (not irreflexive)", name, a, a)
		}
		for _, b := range vrPool {
			if a == b {
				continue
			}
			if !mk()(a, b) && !mk()(b, a) {
				return fmt.Sprintf("%s leaves the distinct keys %q and %q unordered: their order depends on arrival", name, a, b)
			}
			for _, c := range vrPool {
				if mk()(a, b) && mk()(b, c) && !mk()(a, c) && a != c {
					return fmt.Sprintf("%s is not transitive: %q < %q < %q but not %q < %q", name, a, b, c, a, c)
				}
			}
		}
	}
	// every permutation sorts to the same sequence (one comparator per sort, as in the program)
	n := len(vrPool)
	for i := 0; i < n; i++ {
		for j := i + 1; j < n; j++ {
			for k := j + 1; k < n; k++ {
				for l := k + 1; l < n; l += 3 {
					set := []string{vrPool[i], vrPool[j], vrPool[k], vrPool[l]}
					first := ""
					for _, p := range vrPerms(set) {
						arr := append([]string(nil), p...)
						Sort(arr, mk())
						got := strings.Join(arr, "|")
						if first == "" {
							first = got
						} else if got != first {
							return fmt.Sprintf("%s: the keys %q sort to %q or to %q depending on their arrival order", name, set, first, got)
						}
					}
				}
			}
		}
	}
	return ""
}

func TestVerifReplaySorters(t *testing.T) {
	for _, c := range []struct {
		name string
		mk   func() NameSorter
	}{
		{"ByName", func() NameSorter { return ByName }},
		{"ByNameSmart (numeric)", func() NameSorter { return ByNameSmart }},
		{"ByContextual", func() NameSorter { return ByContextual() }},
		{"ByDateWithContextual", func() NameSorter { return ByDateWithContextual() }},
	} {
		if msg := vrCheckSorter(c.name, c.mk); msg != "" {
			fmt.Println("REPRODUCED: " + msg)
			t.Fail()
			return
		}
	}
}

func TestVerifReplaySortersPure(t *testing.T) {
	// the stateless comparators only (used as the bounded stand-in on the unchanged tree)
	for _, c := range []struct {
		name string
		mk   func() NameSorter
	}{
		{"ByName", func() NameSorter { return ByName }},
		{"ByNameSmart (numeric)", func() NameSorter { return ByNameSmart }},
	} {
		if msg := vrCheckSorter(c.name, c.mk); msg != "" {
			fmt.Println("REPRODUCED: " + msg)
			t.Fail()
			return
		}
	}
	// value sort: larger totals first, ties by name; reverse reverses
	items := []NameValuePair{{"a", 1}, {"b", 3}, {"c", 3}, {"d", -2}, {"e", 9223372036854775807}, {"f", -9223372036854775808}}
	var want string
	for _, p := range [][]int{{0, 1, 2, 3, 4, 5}, {5, 4, 3, 2, 1, 0}, {2, 0, 4, 1, 5, 3}, {3, 5, 1, 4, 0, 2}} {
		arr := make([]NameValuePair, len(p))
		for i, k := range p {
			arr[i] = items[k]
		}
		Sort(arr, NVValueSorter)
		got := fmt.Sprint(arr)
		if want == "" {
			want = got
			if arr[0].Name != "e" || arr[1].Name != "b" || arr[2].Name != "c" || arr[5].Name != "f" {
				fmt.Printf("REPRODUCED: value sort gives %v; larger totals must come first, ties in name order\n", arr)
				t.Fail()
				return
			}
		} else if got != want {
			fmt.Printf("REPRODUCED: value sort depends on arrival order: %s vs %s\n", want, got)
			t.Fail()
			return
		}
	}
}
